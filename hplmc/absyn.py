"""E1 - abstract syntax independent of hpl.ast, lifting of real ASTs by raw
attrs fields, renderers (minimal / full parenthesisation, token lists for the
layout explorer) and construction of real ASTs through the public constructors.

Abstract trees are plain tuples:

  ('lit', token, value)      value is a python bool/int/float/str; numeric
                             constants: token 'PI'|'E'|'INF'|'NAN'
  ('this',)  ('var', name)
  ('field', obj, name)  ('index', arr, idx)
  ('un', '-'|'not', a)  ('bin', op, a, b)
  ('quant', 'forall'|'exists', var, dom, body)
  ('set', (e1..en))  ('range', lo, hi, excl_lo, excl_hi)  ('call', fname, (args))
  ('pred', expr) ('ptrue',) ('pfalse',)
  ('event', topic, alias|None, pred)  ('evor', e1, e2)
  ('scope', kind, activator|None, terminator|None)
  ('pattern', kind, behaviour, trigger|None, min_t, max_t)
  ('property', scope, pattern)
  ('spec', (p1..pn))

`lift` never calls children()/iterate()/external_references()/__str__ or any
other method that is itself under test.
"""

from __future__ import annotations

import math

# ---------------------------------------------------------------------------
# documented language tables (hard-coded; never read from hpl)
# ---------------------------------------------------------------------------

BIN_OPS = ('implies', 'iff', 'or', 'and', '=', '!=', '<', '<=', '>', '>=', 'in', '+', '-', '*', '/', '**')
# precedence level of the *result* of a binary operator, and the minimum level
# required of its (left, right) operand: all binary operators are left
# associative; relational operators do not chain.
LEVEL = {
    'implies': 0, 'iff': 0,
    'or': 1,
    'and': 2,
    '=': 3, '!=': 3, '<': 3, '<=': 3, '>': 3, '>=': 3, 'in': 3,
    '+': 4, '-': 4,
    '*': 5, '/': 5,
    '**': 6,
}
OPERAND_MIN = {
    0: (0, 1),
    1: (1, 2),
    2: (2, 3),
    3: (4, 4),
    4: (4, 5),
    5: (5, 6),
    6: (6, 7),
}
L_LOGIC = 3  # negation / quantification / atomic condition
L_EXPR = 4
L_EXPONENT = 7  # parenthesised condition, negative number
L_ATOM = 8

SCOPES = ('globally', 'after', 'until', 'after_until')
PATTERNS = ('existence', 'absence', 'response', 'requirement', 'prevention')
CONSTANTS = {'PI': math.pi, 'E': math.e, 'INF': float('inf'), 'NAN': float('nan')}

KEYWORDS = (
    'not implies iff or and forall exists in to as within no some requires causes forbids after until globally '
    'True False PI INF NAN E s ms'
).split()


# ---------------------------------------------------------------------------
# lifting real objects
# ---------------------------------------------------------------------------

_SCOPE_NAMES = {'GLOBAL': 'globally', 'AFTER': 'after', 'UNTIL': 'until', 'AFTER_UNTIL': 'after_until'}
_PATTERN_NAMES = {
    'EXISTENCE': 'existence',
    'ABSENCE': 'absence',
    'RESPONSE': 'response',
    'REQUIREMENT': 'requirement',
    'PREVENTION': 'prevention',
}


class LiftError(Exception):
    pass


def _enum_member_name(e):
    # Enum.name may be overridden by the implementation; read the canonical one
    return e._name_


def lift(obj, typed=False):
    """Real AST object -> abstract tuple (reading raw attrs fields only).

    With typed=True every expression node is wrapped as ('t', data_type_bits, node).
    """
    cn = type(obj).__name__
    g = object.__getattribute__

    def L(x):
        return lift(x, typed)

    def S(x):
        # lark Tokens are str subclasses: normalise to plain str
        return str(x) if isinstance(x, str) and type(x) is not str else x

    def T(node):
        if typed:
            return ('t', int(g(obj, 'data_type').value), node)
        return node

    if cn == 'HplLiteral':
        return T(('lit', S(g(obj, 'token')), S(g(obj, 'value'))))
    if cn == 'HplThisMessage':
        return T(('this',))
    if cn == 'HplVarReference':
        tok = S(g(obj, 'token'))
        return T(('var', tok[1:] if tok.startswith('@') else '!' + tok))
    if cn == 'HplFieldAccess':
        return T(('field', L(g(obj, 'message')), S(g(obj, 'field'))))
    if cn == 'HplArrayAccess':
        return T(('index', L(g(obj, 'array')), L(g(obj, 'index'))))
    if cn == 'HplUnaryOperator':
        return T(('un', S(g(g(obj, 'operator'), 'token')), L(g(obj, 'operand'))))
    if cn == 'HplBinaryOperator':
        return T(('bin', S(g(g(obj, 'operator'), 'token')), L(g(obj, 'operand1')), L(g(obj, 'operand2'))))
    if cn == 'HplQuantifier':
        q = g(obj, 'quantifier')
        return T(('quant', S(q._value_), S(g(obj, 'variable')), L(g(obj, 'domain')), L(g(obj, 'condition'))))
    if cn == 'HplSet':
        return T(('set', tuple(L(v) for v in g(obj, 'values'))))
    if cn == 'HplRange':
        return T(
            ('range', L(g(obj, 'min_value')), L(g(obj, 'max_value')), g(obj, 'exclude_min'), g(obj, 'exclude_max'))
        )
    if cn == 'HplFunctionCall':
        return T(('call', S(g(g(obj, 'function'), 'name')), tuple(L(a) for a in g(obj, 'arguments'))))
    if cn == 'HplPredicateExpression':
        return ('pred', L(g(obj, 'expression')))
    if cn == 'HplVacuousTruth':
        return ('ptrue',)
    if cn == 'HplContradiction':
        return ('pfalse',)
    if cn == 'HplSimpleEvent':
        return ('event', S(g(obj, 'name')), S(g(obj, 'alias')), L(g(obj, 'predicate')))
    if cn == 'HplEventDisjunction':
        return ('evor', L(g(obj, 'event1')), L(g(obj, 'event2')))
    if cn == 'HplScope':
        a = g(obj, 'activator')
        t = g(obj, 'terminator')
        return (
            'scope',
            _SCOPE_NAMES[_enum_member_name(g(obj, 'scope_type'))],
            None if a is None else L(a),
            None if t is None else L(t),
        )
    if cn == 'HplPattern':
        tr = g(obj, 'trigger')
        return (
            'pattern',
            _PATTERN_NAMES[_enum_member_name(g(obj, 'pattern_type'))],
            L(g(obj, 'behaviour')),
            None if tr is None else L(tr),
            g(obj, 'min_time'),
            g(obj, 'max_time'),
        )
    if cn == 'HplProperty':
        return ('property', L(g(obj, 'scope')), L(g(obj, 'pattern')))
    if cn == 'HplSpecification':
        return ('spec', tuple(L(p) for p in g(obj, 'properties')))
    raise LiftError(f'cannot lift {cn}: {obj!r}')


def canon(tree):
    """Hashable, NaN-safe, type-strict canonical form of an abstract tree
    (1 != 1.0 != True; NaN equals itself)."""
    if isinstance(tree, tuple):
        return tuple(canon(x) for x in tree)
    if isinstance(tree, bool):
        return ('#b', tree)
    if isinstance(tree, int):
        return ('#i', tree)
    if isinstance(tree, float):
        return ('#f', repr(tree))
    return tree


def strip_types(tree):
    if isinstance(tree, tuple):
        if tree and tree[0] == 't':
            return strip_types(tree[2])
        return tuple(strip_types(x) for x in tree)
    return tree


def size(tree):
    """Number of abstract nodes."""
    if not isinstance(tree, tuple) or not tree:
        return 0
    tag = tree[0]
    if tag in ('lit', 'this', 'var', 'ptrue', 'pfalse'):
        return 1
    if tag == 't':
        return size(tree[2])
    return 1 + sum(size(x) for x in tree[1:] if isinstance(x, tuple))


def subterms(tree):
    """All expression/predicate/event sub-trees, pre-order (abstract walk)."""
    yield tree
    tag = tree[0]
    if tag in ('set', 'call', 'spec'):
        for x in tree[-1]:
            yield from subterms(x)
        return
    for x in tree[1:]:
        if isinstance(x, tuple) and x and isinstance(x[0], str):
            yield from subterms(x)


# ---------------------------------------------------------------------------
# rendering abstract trees to HPL token lists
# ---------------------------------------------------------------------------


def _level(t):
    tag = t[0]
    if tag == 'bin':
        return LEVEL[t[1]]
    if tag == 'un':
        return L_LOGIC if t[1] == 'not' else L_EXPONENT
    if tag == 'quant':
        return L_LOGIC
    return L_ATOM


def expr_tokens(t, mode='min', need=0, paren_hook=None, path=(), root=False):
    """Token list of an expression.

    mode 'min': parentheses only where the grammar needs them; 'full': every
    operator / quantifier application in an operand position is parenthesised.
    paren_hook(path) -> bool adds redundant parentheses around the sub-term at
    `path` (used by the layout explorer); only asked where the grammar allows a
    parenthesised condition.
    """
    tag = t[0]
    if tag == 'lit':
        toks = [t[1]]
    elif tag == 'this':
        raise ValueError('bare this-message has no text')
    elif tag == 'var':
        toks = ['@' + t[1]]
    elif tag == 'field':
        if t[1] == ('this',):
            toks = [t[2]]
        else:
            toks = expr_tokens(t[1], mode, L_ATOM, None, path + (1,)) + ['.', t[2]]
    elif tag == 'index':
        toks = expr_tokens(t[1], mode, L_ATOM, None, path + (1,)) + ['['] + expr_tokens(t[2], mode, L_EXPR, paren_hook, path + (2,)) + [']']
    elif tag == 'un':
        if t[1] == 'not':
            toks = ['not'] + expr_tokens(t[2], mode, L_LOGIC, paren_hook, path + (2,))
        else:
            toks = ['-'] + expr_tokens(t[2], mode, L_EXPONENT, paren_hook, path + (2,))
    elif tag == 'bin':
        lv = LEVEL[t[1]]
        lmin, rmin = OPERAND_MIN[lv]
        toks = expr_tokens(t[2], mode, lmin, paren_hook, path + (2,)) + [t[1]] + expr_tokens(t[3], mode, rmin, paren_hook, path + (3,))
    elif tag == 'quant':
        toks = (
            [t[1], t[2], 'in']
            + expr_tokens(t[3], mode, L_ATOM, None, path + (3,))
            + [':']
            + expr_tokens(t[4], mode, L_LOGIC, paren_hook, path + (4,))
        )
    elif tag == 'set':
        toks = ['{']
        for i, e in enumerate(t[1]):
            if i:
                toks.append(',')
            toks += expr_tokens(e, mode, L_EXPR, paren_hook, path + (1, i))
        toks.append('}')
    elif tag == 'range':
        toks = (
            ['![' if t[3] else '[']
            + expr_tokens(t[1], mode, L_EXPR, paren_hook, path + (1,))
            + ['to']
            + expr_tokens(t[2], mode, L_EXPR, paren_hook, path + (2,))
            + [']!' if t[4] else ']']
        )
    elif tag == 'call':
        toks = [t[1], '(']
        for i, e in enumerate(t[2]):
            if i:
                toks.append(',')
            toks += expr_tokens(e, mode, L_EXPR, paren_hook, path + (2, i))
        toks.append(')')
    else:
        raise ValueError(f'not an expression: {t!r}')
    lv = _level(t)
    wrap = lv < need
    if not wrap and mode == 'full' and lv < L_ATOM and not root and need < L_ATOM:
        wrap = True
    if not wrap and paren_hook is not None and need < L_ATOM and paren_hook(path):
        wrap = True
    if wrap:
        if need >= L_ATOM:
            raise ValueError(f'sub-term {t!r} cannot appear in an atomic position')
        toks = ['('] + toks + [')']
    return toks


def pred_tokens(p, mode='min', paren_hook=None, path=()):
    if p[0] == 'ptrue':
        return []
    if p[0] == 'pfalse':
        return ['{', 'False', '}']
    return ['{'] + expr_tokens(p[1], mode, 0, paren_hook, path + (1,), root=True) + ['}']


def _flatten_evor(e):
    if e[0] == 'evor':
        return _flatten_evor(e[1]) + _flatten_evor(e[2])
    return [e]


def event_tokens(e, mode='min', paren_hook=None, path=()):
    if e[0] == 'evor':
        # the grammar only has the flat n-ary form; both nestings print the same
        toks = ['(']
        for i, s in enumerate(_flatten_evor(e)):
            if i:
                toks.append('or')
            toks += event_tokens(s, mode, paren_hook, path + ('alt', i))
        return toks + [')']
    toks = [e[1]]
    if e[2] is not None:
        toks += ['as', e[2]]
    toks += pred_tokens(e[3], mode, paren_hook, path + (3,))
    return toks


def time_tokens(max_t, unit_pref=None):
    """Canonical rendering of a time bound given in seconds."""
    if max_t == float('inf'):
        return []
    raise ValueError('time bounds are rendered from their source text, see property_tokens(time=...)')


def property_tokens(p, mode='min', time=None, meta=None, paren_hook=None):
    """p = ('property', scope, pattern); `time` = (number_text, unit) or None
    overrides max_t rendering (the abstract tree keeps seconds)."""
    _, scope, pat = p
    toks = []
    for key, val in (meta or ()):
        toks += ['#', key, ':', val]
    kind = scope[1]
    if kind == 'globally':
        toks.append('globally')
    elif kind == 'after':
        toks += ['after'] + event_tokens(scope[2], mode, paren_hook, ('act',))
    elif kind == 'until':
        toks += ['until'] + event_tokens(scope[3], mode, paren_hook, ('term',))
    else:
        toks += ['after'] + event_tokens(scope[2], mode, paren_hook, ('act',)) + ['until'] + event_tokens(scope[3], mode, paren_hook, ('term',))
    toks.append(':')
    pk, beh, trig = pat[1], pat[2], pat[3]
    if pk == 'existence':
        toks += ['some'] + event_tokens(beh, mode, paren_hook, ('beh',))
    elif pk == 'absence':
        toks += ['no'] + event_tokens(beh, mode, paren_hook, ('beh',))
    elif pk == 'response':
        toks += event_tokens(trig, mode, paren_hook, ('trig',)) + ['causes'] + event_tokens(beh, mode, paren_hook, ('beh',))
    elif pk == 'prevention':
        toks += event_tokens(trig, mode, paren_hook, ('trig',)) + ['forbids'] + event_tokens(beh, mode, paren_hook, ('beh',))
    elif pk == 'requirement':
        toks += event_tokens(beh, mode, paren_hook, ('beh',)) + ['requires'] + event_tokens(trig, mode, paren_hook, ('trig',))
    else:
        raise ValueError(pk)
    if time is not None:
        toks += ['within', time[0], time[1]]
    elif pat[5] != float('inf'):
        toks += ['within', repr(float(pat[5])), 's']
    return toks


_GLUE = set('(){},:')


def can_glue(a, b):
    """May tokens a and b be written with no whitespace in between without
    changing the token sequence?  (conservative)"""
    x, y = a[-1], b[0]
    if x in _GLUE and y in _GLUE:
        return True
    if x in _GLUE:
        return y not in '!=<>*-'
    if y in _GLUE:
        return x not in '!=<>*-'
    return False


def join(tokens, seps=None):
    if seps is None:
        return ' '.join(tokens)
    out = []
    for i, tok in enumerate(tokens):
        if i:
            out.append(seps[i - 1])
        out.append(tok)
    return ''.join(out)


def expr_text(t, mode='min'):
    return join(expr_tokens(t, mode, root=True))


def pred_text(p, mode='min'):
    if p[0] == 'ptrue':
        return '{ True }'
    return join(pred_tokens(p, mode))


def event_text(e, mode='min'):
    return join(event_tokens(e, mode))


def property_text(p, mode='min', time=None, meta=None):
    return join(property_tokens(p, mode, time, meta))


# ---------------------------------------------------------------------------
# building real ASTs through the public constructors
# ---------------------------------------------------------------------------


def build(t):
    """Abstract tree -> real AST through the public API (not the parser)."""
    import hpl.ast as A

    tag = t[0]
    if tag == 'lit':
        return A.HplLiteral(t[1], t[2])
    if tag == 'this':
        return A.HplThisMessage()
    if tag == 'var':
        return A.HplVarReference('@' + t[1])
    if tag == 'field':
        return A.HplFieldAccess(build(t[1]), t[2])
    if tag == 'index':
        return A.HplArrayAccess(build(t[1]), build(t[2]))
    if tag == 'un':
        return A.HplUnaryOperator(t[1], build(t[2]))
    if tag == 'bin':
        return A.HplBinaryOperator(t[1], build(t[2]), build(t[3]))
    if tag == 'quant':
        return A.HplQuantifier(t[1], t[2], build(t[3]), build(t[4]))
    if tag == 'set':
        return A.HplSet(tuple(build(e) for e in t[1]))
    if tag == 'range':
        return A.HplRange(build(t[1]), build(t[2]), exclude_min=t[3], exclude_max=t[4])
    if tag == 'call':
        return A.HplFunctionCall(t[1], tuple(build(e) for e in t[2]))
    if tag == 'pred':
        return A.HplPredicateExpression(build(t[1]))
    if tag == 'ptrue':
        return A.HplVacuousTruth()
    if tag == 'pfalse':
        return A.HplContradiction()
    if tag == 'event':
        return A.HplSimpleEvent.publish(t[1], predicate=build(t[3]), alias=t[2])
    if tag == 'evor':
        return A.HplEventDisjunction(build(t[1]), build(t[2]))
    if tag == 'scope':
        k = t[1]
        if k == 'globally':
            return A.HplScope.globally()
        if k == 'after':
            return A.HplScope.after(build(t[2]))
        if k == 'until':
            return A.HplScope.until(build(t[3]))
        return A.HplScope.after_until(build(t[2]), build(t[3]))
    if tag == 'pattern':
        k, beh, trig, mn, mx = t[1:]
        if k == 'existence':
            return A.HplPattern.existence(build(beh), min_time=mn, max_time=mx)
        if k == 'absence':
            return A.HplPattern.absence(build(beh), min_time=mn, max_time=mx)
        if k == 'response':
            return A.HplPattern.response(build(trig), build(beh), min_time=mn, max_time=mx)
        if k == 'requirement':
            return A.HplPattern.requirement(build(beh), build(trig), min_time=mn, max_time=mx)
        return A.HplPattern.prevention(build(trig), build(beh), min_time=mn, max_time=mx)
    if tag == 'property':
        return A.HplProperty(build(t[1]), build(t[2]))
    if tag == 'spec':
        return A.HplSpecification(tuple(build(p) for p in t[1]))
    raise ValueError(f'cannot build {t!r}')


# ---------------------------------------------------------------------------
# self test (setup_cmd): the field names lift() relies on still exist
# ---------------------------------------------------------------------------


def selftest():
    from hpl.parser import property_parser

    p = property_parser().parse(
        '# id: x\nafter (a as A or b {x > 1}) until c {forall i in xs: @i in ![0 to f(y)]}: '
        'd {not p and {1, 2} = m.z[0].w} causes e {@A.v = -1 ** 2} within 100 ms'
    ) if False else None
    q = property_parser().parse('after (a as A or b {x > 1}) until c {forall i in xs: @i in ![0 to len(ys)]}: d {not p or m.z[0].w = 1} causes e {@A.v = -1 ** 2} within 100 ms')
    t = lift(q)
    assert t[0] == 'property' and t[1][1] == 'after_until' and t[2][1] == 'response', t
    assert t[2][5] == 0.1
    tt = lift(q, typed=True)
    assert strip_types(tt) == t
    txt = property_text(t, time=('100', 'ms'))
    q2 = property_parser().parse(txt)
    assert canon(lift(q2)) == canon(t), (txt, lift(q2), t)
    assert canon(lift(build(t))) == canon(t)
