"""Boolean + quantifier fragment shared by C09 (split_and), C10
(refactor_reference) and C13: universe and valuation grid."""

from hplmc.universe import FALSE, TRUE, Grammar, alias_field, num, this_field

tf = this_field

P, Q, R = tf('p'), tf('q'), tf('r')
X_GT_0 = ('bin', '>', tf('x'), num(0))
Y_EQ_1 = ('bin', '=', tf('y'), num(1))
AP = alias_field('A', 'p')
AX_GT_0 = ('bin', '>', alias_field('A', 'x'), num(0))
BP = alias_field('B', 'p')

GRID = {
    'N': (-1, 0, 1),
    'B': (True, False),
    'A': ((), (0,), (0, 1), (1, 0, 2)),
    'AB': ((), (True,), (True, False)),
    'S': ('"a"',),
}


def _qatoms(with_alias):
    def f(env):
        out = []
        for v in env:
            out.append(('bin', '>', ('var', v), num(0)))
            out.append(('bin', '>', ('index', tf('ys'), ('var', v)), num(0)))  # the variable occurs only as an index
            if with_alias:
                out.append(('bin', '>', alias_field('A', 'x'), ('var', v)))
        if len(env) == 2:
            out.append(('bin', '<', ('var', env[0]), ('var', env[1])))
        return {'B': out}

    return f


def grammar(with_alias=False, quantifiers=True, literals=True):
    batoms = [P, Q, R, X_GT_0, Y_EQ_1]
    if literals:
        batoms += [TRUE, FALSE]
    doms = [tf('xs'), ('set', (num(0), num(1))), ('range', num(0), num(1), False, False),
            ('range', num(2), num(0), False, False), ('range', num(1), num(1), True, True),  # reversed by two; empty by exclusion
            ('range', num(0), ('lit', '18446744073709551615', 18446744073709551615), True, False)]  # the uint64 value range
    if with_alias:
        batoms += [AP, AX_GT_0, BP, ('bin', '>', ('index', tf('ys'), alias_field('A', 'x')), num(0))]  # the last: alias only inside an index
        doms.append(alias_field('A', 'xs'))
    return Grammar(
        {'B': batoms, 'D': doms},
        arith=(), cmp=(), un_minus=False,
        quants=('forall', 'exists') if quantifiers else (),
        domains=('D',),
        qvar_atoms=_qatoms(with_alias),
    )
