"""C01 - parsing builds exactly the tree the grammar assigns to the text.

Sub-universes (all enumerated completely within the stated bounds):
  U1  terms up to the node bound, minimal and full parenthesisation, as
      expression / predicate / condition               -> tree equality (3-way)
  U2  property skeletons x decorations x time bounds x metadata
  U3  layouts: separators and redundant parentheses, <= d deviations   (E5)
  U4  token sequences up to a length bound and single (double) token edits of a
      valid corpus                                      -> accept/reject + trees
  U5  grammar sync: parser built from src/hpl/grammars/*.lark vs hpl.grammar
  U6  keyword-prefixed names (longest match)
Oracles: the abstract tree a text was rendered from; the independent reference
parser (hplmc.ref.parse); the lifted real tree.
"""

from __future__ import annotations

from itertools import combinations, product

from hplmc import absyn, impl, props
from hplmc.core import Result, chunks
from hplmc.ref import parse as RP
from hplmc.universe import FALSE, TRUE, Grammar, alias_field, num, this_field

ID = 'C01'
tf = this_field
NSHARD = 48
INF = float('inf')


def bounds(tier):
    if tier == 'quick':
        return {'nodes': 4, 'max_width': 3, 'layout_dev': 1, 'layout_nodes': 3, 'seq_len_full': 2, 'seq_len_core': 3, 'double_edits': False}
    return {'nodes': 5, 'max_width': 4, 'layout_dev': 2, 'layout_nodes': 4, 'seq_len_full': 3, 'seq_len_core': 4, 'double_edits': True}


def grammar():
    atoms = {
        'N': [tf('x'), alias_field('A', 'x'), ('field', tf('m'), 'f'), num(0), num(10), ('lit', '2.5', 2.5), ('lit', '1e3', 1000.0), ('lit', '.5', 0.5),
              ('lit', 'PI', absyn.CONSTANTS['PI']), ('lit', 'E', absyn.CONSTANTS['E']),
              ('lit', '9007199254740993', 9007199254740993), ('lit', '18446744073709551615', 18446744073709551615), tf('_r1')],
        'B': [tf('p'), tf('_b'), TRUE, FALSE],
        'S': [tf('s'), ('lit', '"a b"', '"a b"'), ('lit', '"\\"q\\""', '"\\"q\\""')],
        'A': [tf('xs'), alias_field('A', 'xs')],
    }
    return Grammar(
        atoms,
        funcs={'abs': ('N', 'N'), 'len': ('A', 'N'), 'sum': ('SET', 'N'), 'max': ('R', 'N')},
        quants=('forall', 'exists'), domains=('A', 'SET', 'R'),
        set_widths=(1, 2, 3), range_flags=((False, False), (True, True), (True, False), (False, True)),
        inclusion=('A', 'SET', 'R'), index=True, eq_sorts=('N', 'B', 'S'),
    )


# ---------------------------------------------------------------------------
# comparison of one text against the three trees
# ---------------------------------------------------------------------------


def has_keyword_name(tree):
    """An identifier (field, alias, variable, topic, function) equal to a keyword:
    outside the specified language."""
    kw = RP.KEYWORDS
    for u in absyn.subterms(tree):
        tag = u[0]
        if tag == 'field' and u[2] in kw:
            return True
        if tag == 'var' and u[1] in kw:
            return True
        if tag == 'quant' and u[2] in kw:
            return True
        if tag == 'call' and u[1] in kw:
            return True
        if tag == 'event' and (u[1] in kw or (u[2] and u[2] in kw)):
            return True
    return False


def real_outcome(kind, text):
    """('tree', lifted, obj) | ('syntax', msg) | ('other', class)   (accepted syntactically)"""
    st, res = impl.try_parse(kind, text)
    if st == 'ok':
        return ('tree', absyn.lift(res), res)
    if st == 'syntax':
        return ('syntax', str(res)[:120], None)
    return ('other', st, None)


def ref_outcome(kind, text):
    try:
        t, info = RP.parse(kind, text)
        return ('tree', t, info)
    except RP.RefSyntaxError as e:
        return ('syntax', str(e), None)
    except RecursionError:
        return ('skip', 'recursion', None)


def compare_text(kind, text, expected=None, r=None):
    """Three-way comparison. Returns list of (kind, detail)."""
    problems = []
    ro = real_outcome(kind, text)
    fo = ref_outcome(kind, text)
    if r is not None:
        r.count('transitions')
        r.outcomes[f'{kind}:real={ro[0]}/ref={fo[0]}'] += 1
    if fo[0] == 'skip':
        return problems
    if fo[0] == 'tree' and kind in ('prop', 'spec'):
        # an event stores references to its own alias as the message itself
        t_ = fo[1]
        t_ = normalise_own_alias(t_) if kind == 'prop' else ('spec', tuple(normalise_own_alias(q) for q in t_[1]))
        fo = ('tree', t_, fo[2])
    # texts outside the specified language: identifier equal to a keyword
    if (fo[0] == 'tree' and (fo[2]['notes'] or has_keyword_name(fo[1]))) or (ro[0] == 'tree' and has_keyword_name(ro[1])):
        if r is not None:
            r.notes['skipped: identifier equal to a keyword'] += 1
        return problems
    if expected is not None:
        if fo[0] != 'tree' or absyn.canon(fo[1]) != absyn.canon(expected):
            problems.append(('HARNESS-ERROR reference parser disagrees with the generator', f'«{text}» [{kind}]: expected {expected}, reference {fo[:2]}'))
            return problems
    if fo[0] == 'tree':
        if ro[0] == 'syntax':
            problems.append(('well-formed text rejected with a syntax error', f'«{text}» [{kind}]: {ro[1]}'))
        elif ro[0] == 'tree':
            if absyn.canon(ro[1]) != absyn.canon(fo[1]):
                problems.append(('parsed into a different tree', f'«{text}» [{kind}]: expected {fo[1]}, got {ro[1]}'))
            elif kind in ('prop', 'spec'):
                problems += compare_meta(kind, ro[2], fo[2]['meta'], text)
    else:
        if ro[0] == 'other' and ro[1] in ('type', 'sanity', 'value'):
            # callbacks run while parsing: a type/sanity error inside a well-formed prefix is raised
            # before the syntax error further right is seen.  The text is still rejected and nothing
            # is "parsed into something else", so this is not counted against the property.
            if r is not None:
                r.notes['ill-formed text rejected by an earlier type/sanity error'] += 1
        elif ro[0] != 'syntax':
            got = ro[1] if ro[0] == 'other' else 'an AST'
            problems.append(('ill-formed text not rejected with a syntax error', f'«{text}» [{kind}]: reference parser: {fo[1]}; implementation gave {got}'))
    return problems


def compare_meta(kind, obj, meta, text):
    def norm(m):
        return {str(k): str(v) for k, v in m.items()}

    if kind == 'prop':
        if norm(obj.metadata) != norm(meta):
            return [('metadata differs', f'«{text}»: expected {meta}, got {obj.metadata}')]
        return []
    out = []
    for p, m in zip(obj.properties, meta):
        if norm(p.metadata) != norm(m):
            out.append(('metadata differs', f'«{text}»: expected {m}, got {p.metadata}'))
    return out


# ---------------------------------------------------------------------------
# U3 layouts (E5: deviation-bounded choice exploration)
# ---------------------------------------------------------------------------

SEPS = (' ', '\n', '\t  ', '')


def layouts(tokens, max_dev):
    """All separator layouts with <= max_dev non-default gaps (default ' ')."""
    gaps = len(tokens) - 1
    alts = []
    for g in range(gaps):
        for s in SEPS[1:]:
            if s == '' and not absyn.can_glue(tokens[g], tokens[g + 1]):
                continue
            alts.append((g, s))
    yield [' '] * gaps
    for d in range(1, max_dev + 1):
        for combo in combinations(alts, d):
            if len({g for g, _ in combo}) < d:
                continue
            seps = [' '] * gaps
            for g, s in combo:
                seps[g] = s
            yield seps


def paren_paths(t, path=()):
    """Paths of sub-terms around which redundant parentheses are allowed."""
    out = []

    def walk(t, path, allowed):
        if allowed:
            out.append(path)
        tag = t[0]
        if tag == 'un':
            walk(t[2], path + (2,), True)
        elif tag == 'bin':
            walk(t[2], path + (2,), True)
            walk(t[3], path + (3,), True)
        elif tag == 'quant':
            walk(t[3], path + (3,), False)
            walk(t[4], path + (4,), True)
        elif tag == 'set':
            for i, e in enumerate(t[1]):
                walk(e, path + (1, i), True)
        elif tag == 'range':
            walk(t[1], path + (1,), True)
            walk(t[2], path + (2,), True)
        elif tag == 'call':
            for i, e in enumerate(t[2]):
                walk(e, path + (2, i), True)
        elif tag == 'index':
            walk(t[1], path + (1,), False)
            walk(t[2], path + (2,), True)
        elif tag == 'field' and t[1] != ('this',):
            walk(t[1], path + (1,), False)

    walk(t, path, True)
    return out


def check_layouts(t, tier, r):
    b = bounds(tier)
    problems = []
    base = absyn.expr_tokens(t, 'min', root=True)
    paths = paren_paths(t)
    n = 0
    # deviations: separators and redundant parentheses share one budget
    for dpar in range(0, b['layout_dev'] + 1):
        for pcombo in combinations(paths, dpar):
            chosen = set(pcombo)
            toks = absyn.expr_tokens(t, 'min', 0, (lambda p: p in chosen) if chosen else None, (), root=not (() in chosen))
            if () in chosen:
                toks = ['('] + absyn.expr_tokens(t, 'min', root=True) + [')'] if toks[0] != '(' or dpar == 0 else toks
            for seps in layouts(toks, b['layout_dev'] - dpar):
                text = absyn.join(toks, seps)
                n += 1
                for kind in ('expr',):
                    problems += compare_text(kind, text, t, r)
                if problems:
                    return problems, n
    return problems, n


# ---------------------------------------------------------------------------
# U4 token alphabet, sequences and edits
# ---------------------------------------------------------------------------

FULL_ALPHABET = (
    'x A notx 1 2.5 "a" @v True PI '
    'not and or implies iff forall exists in to as within no some requires causes forbids after until globally s ms '
    '= != < <= > >= + - * / ** ( ) { } [ ] ![ ]! , : . # id title'
).split()
CORE_ALPHABET = 'x 1 @v not and or in = < + - * ** ( ) { } [ ] , : .'.split()
PROP_CORE = 'a b as A globally after until no some causes requires : ( ) or { } x within 1 s'.split()

CORPUS = {
    'expr': [
        'x + 1 * y', 'not p and q or r', 'x in [ 0 to 10 ]!', 'forall i in xs : @i > 0', 'a . b [ 1 ] . c = @v . d', 'abs ( - x ) ** 2 < len ( { 1 , 2 } )',
        'p implies q iff r', 'x in ![ 0 to y ]', '"s" = s', 'exists j in { 1 , x } : not @j != 2',
    ],
    'pred': ['{ x > 1 }', '{ not p }', '{ x in { 1 , 2 } and y <= 2.5 }'],
    'prop': [
        'globally : no a', 'globally : some a { x > 1 } within 100 ms', 'after a as A : b { x = @A . x } causes c within 2 s', 'until ( e or f ) : b requires c',
        'after a until b : ( c or d as D or e { p } ) forbids f', '# id : p1 # title : "t" globally : no a',
    ],
    'spec': ['globally : no a after b : some c', '# id : p globally : no a # id : q # description : "d" until e : b requires c within 1 s'],
}


def check_sequence(kind, toks, r):
    text = ' '.join(toks)
    return compare_text(kind, text, None, r)


def edits(tokens, alphabet):
    n = len(tokens)
    for i in range(n):
        yield tokens[:i] + tokens[i + 1:]
    for i in range(n + 1):
        for a in alphabet:
            yield tokens[:i] + [a] + tokens[i:]
    for i in range(n):
        for a in alphabet:
            if a != tokens[i]:
                yield tokens[:i] + [a] + tokens[i + 1:]


# ---------------------------------------------------------------------------
# U6 keyword-prefixed names
# ---------------------------------------------------------------------------

PREFIXED = 'notx orange iffy information android Eps PIx INFO NANO tox asx forallx existsx Truex Falsey nox somex withinx untilx afterx globallyx causesx requiresx forbidsx sx msx idx titlex andy implieso'.split()


def prefixed_cases():
    cases = []
    for w in PREFIXED:
        f = tf(w)
        cases.append(('expr', absyn.expr_text(('bin', '>', f, num(0))), ('bin', '>', f, num(0))))
        cases.append(('expr', absyn.expr_text(('bin', 'and', f, tf('p'))), ('bin', 'and', f, tf('p'))))
        cases.append(('expr', absyn.expr_text(('bin', 'and', tf('p'), f)), ('bin', 'and', tf('p'), f)))
        cases.append(('expr', absyn.expr_text(('un', 'not', f)), ('un', 'not', f)))
        cases.append(('expr', absyn.expr_text(('bin', '=', ('field', tf('m'), w), num(1))), ('bin', '=', ('field', tf('m'), w), num(1))))
        cases.append(('expr', absyn.expr_text(('bin', '<', ('var', w), num(1))), ('bin', '<', ('var', w), num(1))))
        cases.append(('expr', absyn.expr_text(('bin', 'in', f, ('range', num(0), f, False, False))), ('bin', 'in', f, ('range', num(0), f, False, False))))
        q = ('quant', 'forall', w, tf('xs'), ('bin', '>', ('var', w), num(0)))
        cases.append(('expr', absyn.expr_text(q), q))
        for sk, pk in (('globally', 'absence'), ('globally', 'existence'), ('after', 'response'), ('until', 'requirement')):
            e = props.ev(w)
            ea = props.ev('t', w)
            for evx in (e, ea):
                p = props.make_property(sk, pk, act=evx, term=evx, trig=props.ev('g'), beh=evx)
                if sk != 'globally' and evx is e:
                    p = props.make_property(sk, pk, act=props.ev('s0'), term=props.ev('e0'), trig=props.ev('g'), beh=evx)
                cases.append(('prop', absyn.property_text(p), p))
                p2 = props.make_property(sk, pk, act=props.ev('s0'), term=props.ev('e0'), trig=evx, beh=props.ev('b'))
                if pk in props.TWO_EVENT:
                    cases.append(('prop', absyn.property_text(p2), p2))
    return cases


# ---------------------------------------------------------------------------
# U5 grammar sync
# ---------------------------------------------------------------------------


def lark_file_parsers():
    """Parsers built from src/hpl/grammars/*.lark the way scripts/build_grammars.py concatenates them."""
    import re

    from hpl.parser import HplParser
    from hplmc.core import REPO

    pre = re.compile(r'\s*//\s*SPDX-License-Identifier:[^\n]+\s*//\s*Copyright[^\n]+\s*')

    def rd(name):
        text = (REPO / 'src' / 'hpl' / 'grammars' / name).read_text(encoding='utf8')
        m = pre.match(text)
        return text[m.end():] if m else text

    tokens, preds, properties, files = rd('tokens.lark'), rd('predicates.lark'), rd('properties.lark'), rd('files.lark')
    pred_g = f'\n{preds}\n{tokens}\n'
    hpl_g = f'\n{files}\n{properties}\n{preds}\n{tokens}\n'
    return {
        'expr': HplParser.from_grammar(pred_g, start='hpl_expression'),
        'pred': HplParser.from_grammar(pred_g, start='hpl_predicate'),
        'prop': HplParser.from_grammar(hpl_g, start='hpl_property'),
        'spec': HplParser.from_grammar(hpl_g, start='hpl_file'),
    }, tokens


def check_grammar_sync(r):
    import re

    import hpl.grammar as G

    problems = []
    try:
        parsers, tokens = lark_file_parsers()
    except Exception as e:  # noqa: BLE001
        return [('grammar files do not build', f'{type(e).__name__}: {str(e)[:300]}')]
    # operator constants equal the tokens' strings
    for var, tok in re.findall(r'(\w+_OPERATOR)(?:\.\d+)?\s*:\s*(?:"(\w+?)"|/(?:\\b)?(\w+?)(?:\\b)?/)', tokens) and [
        (m[0], m[1] or m[2]) for m in re.findall(r'(\w+_OPERATOR)(?:\.\d+)?\s*:\s*(?:"(\w+?)"|/(?:\\b)?(\w+?)(?:\\b)?/)', tokens)
    ]:
        if getattr(G, var, None) != tok:
            problems.append(('operator constant differs from the token', f'hpl.grammar.{var} = {getattr(G, var, None)!r}, tokens.lark says {tok!r}'))
    corpus = []
    for kind, texts in CORPUS.items():
        for text in texts:
            corpus.append((kind, text))
            toks = text.split(' ')
            for ed in edits(toks, ['x', 'and', '(', ')', 'or', '1']):
                corpus.append((kind, ' '.join(ed)))
    for kind, text, _ in prefixed_cases():
        corpus.append((kind, text))
    for kind, text in corpus:
        r.count('transitions', 2)
        a = real_outcome(kind, text)
        try:
            res = parsers[kind].parse(text)
            b = ('tree', absyn.lift(res))
        except Exception as e:  # noqa: BLE001
            cls = impl.outcome_class(e)
            b = ('syntax',) if cls == 'syntax' else ('other', cls)
        a2 = (a[0], a[1]) if a[0] != 'syntax' else ('syntax',)
        if a2[0] == 'tree':
            a2 = ('tree', absyn.canon(a2[1]))
        if b[0] == 'tree':
            b = ('tree', absyn.canon(b[1]))
        if a2 != b:
            problems.append(('embedded grammar and grammar files disagree', f'«{text}» [{kind}]: embedded {a2[0]}, files {b[0]}'))
            break
    r.count('grammar_sync_texts', len(corpus))
    return problems


# ---------------------------------------------------------------------------
# plan / run
# ---------------------------------------------------------------------------


def plan(tier):
    b = bounds(tier)
    units = []
    for sort in ('B', 'N', 'S'):
        for n in range(1, b['nodes'] + 1):
            sh = 1 if n <= 3 else NSHARD
            units += [('terms', tier, sort, n, k, sh) for k in range(sh)]
    for sort in ('B', 'N'):
        for n in range(1, b['layout_nodes'] + 1):
            sh = 1 if n <= 2 else 24
            units += [('layout', tier, sort, n, k, sh) for k in range(sh)]
    sk = list(props.width_skeletons(b['max_width']))
    units += [('props', tier, c) for c in chunks(sk, 24)]
    for kind in ('expr', 'pred', 'cond', 'prop', 'spec'):
        for first in FULL_ALPHABET:
            units.append(('seq_full', tier, kind, first))
    for kind, alpha in (('expr', CORE_ALPHABET), ('pred', CORE_ALPHABET), ('prop', PROP_CORE)):
        for first in alpha:
            for second in alpha:
                units.append(('seq_core', tier, kind, first, second))
    for kind, texts in CORPUS.items():
        for i in range(len(texts)):
            units.append(('edits', tier, kind, i))
    units += [('opmatrix', tier, k, 8) for k in range(8)]
    units.append(('sync', tier))
    units.append(('prefixed', tier))
    units.append(('ownalias', tier))
    units.append(('proplayout', tier))
    units.append(('strings', tier))
    units.append(('charset', tier))
    units += [('module', tier, kind, k) for kind in ('expr', 'cond', 'pred', 'prop', 'spec') for k in range(4)]
    return units


def _add(r, probs, witness, size):
    seen = set()
    for kind, detail in probs:
        if kind in seen:
            continue
        seen.add(kind)
        r.violation(kind, witness, detail, size=size)


def run(unit):
    r = Result()
    what, tier = unit[0], unit[1]
    b = bounds(tier)
    if what == 'terms':
        _, _, sort, n, k, shards = unit
        g = grammar()
        for i, t in enumerate(g.stream(sort, n)):
            if i % shards != k:
                continue
            r.count('evaluations')
            r.count('states')
            probs = []
            for mode in ('min', 'full'):
                text = absyn.expr_text(t, mode)
                probs += compare_text('expr', text, t, r)
                if sort != 'B' and mode == 'min':
                    bt = ('bin', '<', t, num(0)) if sort == 'N' else ('bin', '=', t, ('lit', '"z"', '"z"'))
                    btext = text + (' < 0' if sort == 'N' else ' = "z"')
                    pexp = props.make_property('globally', 'absence', beh=props.ev('tt', None, ('pred', bt)))
                    probs += compare_text('prop', 'globally : no tt { ' + btext + ' }', pexp, r)
                if sort == 'B':
                    pt = ('ptrue',) if t == TRUE else ('pfalse',) if t == FALSE else ('pred', t)
                    probs += compare_text('pred', '{ ' + text + ' }', pt, r)
                    if mode == 'min':
                        probs += compare_text('cond', text, pt, r)
                    # the same predicate inside a property and inside a specification file: these
                    # entry points use the other embedded grammar (HPL_GRAMMAR)
                    if mode == 'min' or n <= 3:
                        ev_pred = ('ptrue',) if t == TRUE else ('pfalse',) if t == FALSE else ('pred', t)
                        pexp = props.make_property('globally', 'absence', beh=props.ev('tt', None, ev_pred))
                        ptext = 'globally : no tt { ' + text + ' }'
                        probs += compare_text('prop', ptext, pexp, r)
                        if mode == 'min':
                            probs += compare_text('spec', ptext + ' until tt { ' + text + ' } : some uu', None, r)
            r.count('validated')
            _add(r, probs, {'kind': 'expr', 'text': absyn.expr_text(t), 'sort': sort}, absyn.size(t))
            if i % 3001 == 0:
                r.sample({'term': absyn.expr_text(t)})
    elif what == 'opmatrix':
        from hplmc.universe import operator_pair_matrix

        _, _, k, shards = unit
        for i, t in enumerate(operator_pair_matrix()):
            if i % shards != k:
                continue
            r.count('evaluations')
            r.count('states')
            probs = []
            for mode in ('min', 'full'):
                text = absyn.expr_text(t, mode)
                probs += compare_text('expr', text, t, r)
                # as a predicate (non-boolean terms inside a comparison), through the predicate / condition
                # parsers and inside a property and a specification file (the other embedded grammar)
                bt, btext = (t, text) if T_is_bool(t) else (('bin', '<', t, num(0)), text + ' < 0')
                probs += compare_text('pred', '{ ' + btext + ' }', ('pred', bt), r)
                probs += compare_text('cond', btext, ('pred', bt), r)
                pexp = props.make_property('after', 'response', act=props.ev('sa'), trig=props.ev('tt', None, ('pred', bt)), beh=props.ev('uu'))
                probs += compare_text('prop', 'after sa : tt { ' + btext + ' } causes uu', pexp, r)
                probs += compare_text('spec', '# id : k after sa : tt { ' + btext + ' } causes uu', None, r)
            r.count('validated')
            _add(r, [(f'operator pair: {k_}', d) for k_, d in probs], {'kind': 'expr', 'text': absyn.expr_text(t)}, absyn.size(t))
        r.sample({'operator_pair': absyn.expr_text(t)})
    elif what == 'layout':
        _, _, sort, n, k, shards = unit
        g = grammar()
        for i, t in enumerate(g.stream(sort, n)):
            if i % shards != k:
                continue
            r.count('evaluations')
            probs, nl = check_layouts(t, tier, r)
            r.count('states', nl)
            r.count('layouts', nl)
            r.count('validated')
            _add(r, [(f'layout changes the result: {k_}', d) for k_, d in probs], {'kind': 'expr', 'text': absyn.expr_text(t), 'layout': True}, absyn.size(t))
    elif what == 'props':
        from hplmc.checks import c11

        _, _, skels = unit
        for sk, pk, widths in skels:
            for deco in c11.DECOS[:4]:
                evs = c11.decorate(sk, pk, widths, deco)
                if evs is None:
                    continue
                for max_t, timetxt in ((INF, None), (0.1, ('100', 'ms')), (5.0, ('5', 's')), (0.5, ('0.5', 's')), (1.0, ('1e3', 'ms')), (0.0, ('0', 's'))):
                    for meta in ((), (('id', 'p1'),), (('title', '"a t"'), ('id', 'p2'), ('description', '"d"'))):
                        if meta and timetxt not in (None, ('100', 'ms')):
                            continue
                        p = props.make_property(
                            sk, pk,
                            act=props.disj(evs['act']) if 'act' in evs else None, term=props.disj(evs['term']) if 'term' in evs else None,
                            trig=props.disj(evs['trig']) if 'trig' in evs else None, beh=props.disj(evs['beh']), max_t=max_t,
                        )
                        text = absyn.property_text(p, time=timetxt, meta=meta)
                        r.count('evaluations')
                        r.count('states')
                        # expected tree: own alias references are stored as the message itself
                        probs = compare_text('prop', text, normalise_own_alias(p), r)
                        r.count('validated')
                        _add(r, probs, {'kind': 'prop', 'text': text}, len(text))
        r.sample({'property': text})
    elif what == 'seq_full':
        _, _, kind, first = unit
        L = b['seq_len_full']
        for n in range(1, L + 1):
            for rest in product(FULL_ALPHABET, repeat=n - 1):
                toks = [first] + list(rest)
                r.count('evaluations')
                r.count('states')
                _add(r, check_sequence(kind, toks, r), {'kind': kind, 'text': ' '.join(toks)}, len(toks))
        r.count('validated')
    elif what == 'seq_core':
        _, _, kind, first, second = unit
        alpha = PROP_CORE if kind == 'prop' else CORE_ALPHABET
        L = b['seq_len_core'] + (2 if kind == 'prop' else 0)
        for n in range(2, L + 1):
            for rest in product(alpha, repeat=n - 2):
                toks = [first, second] + list(rest)
                if kind == 'prop' and n > 4 and toks[0] not in ('globally', 'after', 'until'):
                    continue  # cannot be a property: covered by the shorter prefixes
                r.count('evaluations')
                r.count('states')
                _add(r, check_sequence(kind, toks, r), {'kind': kind, 'text': ' '.join(toks)}, len(toks))
        r.count('validated')
    elif what == 'edits':
        _, _, kind, i = unit
        base = CORPUS[kind][i].split(' ')
        alphabet = FULL_ALPHABET
        for ed in edits(base, alphabet):
            r.count('evaluations')
            r.count('states')
            _add(r, check_sequence(kind, ed, r), {'kind': kind, 'text': ' '.join(ed)}, len(ed))
            if b['double_edits'] and len(base) <= 8:
                for ed2 in edits(ed, CORE_ALPHABET if kind in ('expr', 'pred') else PROP_CORE):
                    r.count('evaluations')
                    _add(r, check_sequence(kind, ed2, r), {'kind': kind, 'text': ' '.join(ed2)}, len(ed2))
        r.count('validated')
        r.sample({'edited_base': CORPUS[kind][i]})
    elif what == 'sync':
        r.count('evaluations')
        _add(r, check_grammar_sync(r), {'kind': 'sync'}, 1)
    elif what == 'prefixed':
        for kind, text, expected in prefixed_cases():
            r.count('evaluations')
            r.count('states')
            exp = normalise_own_alias(expected) if kind == 'prop' else expected
            probs = compare_text(kind, text, exp, r)
            _add(r, [(f'keyword-prefixed name: {k_}', d) for k_, d in probs], {'kind': kind, 'text': text}, len(text))
        r.sample({'keyword_prefixed': 'globally : no nox'})
    elif what == 'strings':
        # white space INSIDE string literals, titles and descriptions is part of the value: every ordered pair of
        # 14 strings that differ in inner / leading / trailing blanks (or look like HPL text), parsed one after the
        # other on the same parser object through every entry point
        strs = ['a b', 'a  b', 'a\tb', ' a b', 'a b ', 'a   b', 'ab', 'a b  c', 'globally: no a', '# id: x', 'a # b', 'a } {', 'x and y', "a 'b'"]
        shapes = [('expr', 'sa = "%s"'), ('cond', 'sa = "%s" or p'), ('pred', '{ sa = "%s" }'), ('prop', 'globally: no t { sa = "%s" }'),
                  ('prop', '# title: "%s" globally: no t'), ('prop', '# description: "%s" # id: k globally: some t within 1 s'),
                  ('spec', '# title: "%s" globally: no t\n# id: q globally: no u { sa = "%s" }')]
        for kind, shape in shapes:
            for s1 in strs:
                for s2 in strs:
                    r.count('evaluations')
                    r.count('states')
                    for sx in (s1, s2):
                        text = shape % ((sx,) * shape.count('%s'))
                        probs = compare_text(kind, text, None, r)
                        _add(r, [(f'string with inner white space: {k_}', d) for k_, d in probs], {'kind': kind, 'text': text, 'before': shape % ((s1,) * shape.count('%s'))}, len(text))
        r.sample({'strings': 'sa = "a  b" after sa = "a b"'})
    elif what == 'module':
        # the module-level helpers (a new parser object per call) must give what the parser objects give: corpus
        # texts, ill-formed neighbours, layouts, strings with inner blanks; decided by the reference parser as usual
        import hpl.parser as HP

        _, _, kind, k = unit
        fn = {'expr': HP.parse_expresion, 'cond': HP.parse_condition, 'pred': HP.parse_predicate, 'prop': HP.parse_property, 'spec': HP.parse_specification}[kind]
        base = list(CORPUS['expr' if kind == 'cond' else kind])
        texts = []
        for t in base:
            texts += [t, t.replace(' ', '  '), t.replace(' ', '\n'), t.replace(' ', '\t'), ' ' + t + ' \n', t + ' )', t[: len(t) // 2]]
        extra = {'expr': ['sa = "a  b"', 'sa = "a b"', 'nox + android', '1 - - 1', '2 ** 3 ** 2', 'x = 1 = p'], 'cond': ['sa = "a\tb"', 'x and y or z implies w', 'notp'], 'pred': ['{ sa = " a " }', '{ True }', '{x}'],
                 'prop': ['# title: "a  b" globally: no a', '# title: "a b" globally: no a', 'globally: no a within 0 s', 'globally: no nox', 'after a as A until b as B: c {x = @A.x + @B.x} causes d within 1.5 ms'],
                 'spec': ['', '# id: a\nglobally: no a\n\n\n# id: b\nglobally: no b', 'globally: no a\r\nglobally: no b', 'globally: no a globally: no a']}[kind]
        texts += extra
        for i, text in enumerate(texts):
            if i % 4 != k:
                continue
            r.count('evaluations')
            r.count('states')
            r.count('transitions')
            st, obj = impl.try_parse(kind, text)
            exp = (st, absyn.canon(absyn.lift(obj, typed=True)) if st == 'ok' else None)
            try:
                res = fn(text)
                got = ('ok', absyn.canon(absyn.lift(res, typed=True)))
            except Exception as e:  # noqa: BLE001
                got = (impl.outcome_class(e), None)
            if got != exp:
                _add(r, [(f'module-level {fn.__name__} disagrees with the {kind} parser object', f'«{text}»: {got[0]} vs {exp[0]}')], {'kind': kind, 'text': text, 'module_level': True}, len(text))
            _add(r, [(f'parser object: {k_}', d) for k_, d in compare_text(kind, text, None, r)], {'kind': kind, 'text': text}, len(text))
        r.sample({'module_level': 'parse_property(' + repr(CORPUS['prop'][2]) + ')'})
    elif what == 'ownalias':
        # an event's predicate refers to the event's own alias in every slot kind (the parser stores the
        # message itself there): operands, range bounds with each bracket form, set elements, indices,
        # function arguments, quantifier domains and bodies, nested accessors
        from hplmc.universe import alias_field as af

        M = lambda f: af('M', f)  # noqa: E731
        x, y = tf('x'), tf('y')
        bodies = []
        for fl in ((False, False), (True, True), (True, False), (False, True)):
            bodies.append(('bin', 'in', x, ('range', num(0), M('lim'), fl[0], fl[1])))
            bodies.append(('bin', 'in', x, ('range', M('lo'), ('bin', '+', M('hi'), num(1)), fl[0], fl[1])))
            bodies.append(('quant', 'forall', 'i', ('range', num(0), ('call', 'len', (M('xs'),)), fl[0], fl[1]), ('bin', '>', ('index', M('xs'), ('var', 'i')), num(0))))
        bodies += [
            ('bin', 'in', M('k'), ('set', (num(1), M('j'), y))), ('bin', '>', ('index', tf('xs'), M('i')), num(0)), ('bin', '>', ('index', M('xs'), ('bin', '-', M('n'), num(1))), y),
            ('bin', '<', ('call', 'abs', (M('v'),)), ('un', '-', M('w'))), ('bin', '>', ('call', 'roll', (('var', 'M'),)), num(0)), ('quant', 'exists', 'i', M('xs'), ('bin', '=', ('var', 'i'), M('k'))),
            ('bin', 'and', ('un', 'not', M('p')), ('bin', 'implies', M('q'), ('bin', '=', ('field', M('m'), 'f'), ('field', tf('m'), 'f')))), ('bin', '=', ('field', ('index', M('ms'), M('i')), 'g'), num(1)),
        ]
        for body in bodies:
            for sk, pk, pos in (('globally', 'absence', 'beh'), ('after', 'existence', 'act'), ('until', 'response', 'trig'), ('after_until', 'requirement', 'term'), ('globally', 'prevention', 'beh')):
                evs = {'act': props.ev('sa'), 'term': props.ev('te'), 'trig': props.ev('tg'), 'beh': props.ev('bh')}
                evs[pos] = props.ev('tt', 'M', ('pred', body))
                p = props.make_property(sk, pk, act=evs['act'], term=evs['term'], trig=evs['trig'], beh=evs['beh'])
                text = absyn.property_text(p)
                r.count('evaluations')
                r.count('states')
                probs = compare_text('prop', text, normalise_own_alias(p), r)
                probs += compare_text('spec', text + ' # id : zz globally : no yy', None, r)
                _add(r, [(f'own alias in a predicate slot: {k_}', d) for k_, d in probs], {'kind': 'prop', 'text': text}, len(text))
        # a string token cannot contain a raw newline
        for text in ('globally : no a { s = "a\nb" }', '# title : "a\nb" globally : no a', 'globally : no a { s = "a\\nb" }'):
            r.count('evaluations')
            _add(r, compare_text('prop', text, None, r), {'kind': 'prop', 'text': text}, len(text))
        r.sample({'own_alias': 'globally : no tt as M { x in [ 0 to @M . lim ]! }'})
    elif what == 'charset':
        # (a) every numeric constant in every operand slot: the value stored is the constant's own
        for c in ('PI', 'E', 'INF', 'NAN'):
            for tmpl in ('{c}', '- {c}', 'x < {c}', '{c} = x', '{c} != {c}', 'x in [ {c} to 10 ]', 'x in ![ - {c} to {c} ]!', 'x in {{ {c} , 1 }}', 'abs ( {c} ) > 0', 'xs [ {c} ] > 0',
                         'forall i in [ 0 to {c} ] : @i < {c}', '{c} + {c} * 2 > x', 'max ( [ {c} to 2 ] ) > 0', 'not x >= {c}', '@A . x <= {c}'):
                text = tmpl.format(c=c)
                r.count('evaluations')
                r.count('states')
                probs = compare_text('expr', text, None, r)
                if '{c}' != tmpl and not tmpl.startswith('-'):
                    probs += compare_text('prop', 'after b as A : some tt { ' + text + ' }', None, r)
                    probs += compare_text('pred', '{ ' + text + ' }', None, r)
                _add(r, [(f'constant in an operand slot: {k_}', d) for k_, d in probs], {'kind': 'expr', 'text': text}, len(text))
        # (b) names are ASCII: a letter, digit or mark outside ASCII at the start, inside or at the end of every
        # kind of name is an illegal character, whatever `\w`, str.isalpha or str.isdigit think of it
        slots = [('prop', 'globally : no {n}'), ('prop', 'globally : no /ns/{n}'), ('prop', 'globally : no {n}/leaf'), ('prop', 'globally : no ~{n}'), ('prop', 'globally : no ( a or {n} )'),
                 ('prop', 'globally : no a as {N}'), ('prop', 'after a as {N} : no b {{ x > @{N} . x }}'), ('prop', 'globally : no a {{ {n} > 0 }}'), ('prop', 'globally : no a {{ m . {n} > 0 }}'),
                 ('prop', 'globally : no a {{ forall {n} in xs : @{n} > 0 }}'), ('prop', 'globally : no a {{ {n} ( x ) > 0 }}'), ('prop', '# id : {n} globally : no a'),
                 ('expr', '{n}'), ('expr', '{n} + 1'), ('expr', 'm . {n}'), ('expr', '@{n}'), ('expr', '@A . {n}'), ('expr', '{n} [ 0 ]'), ('pred', '{{ {n} }}'), ('cond', '{n} = 1')]
        for ch in ('é', 'ß', '٣', '²', 'Á', 'π', '中', '́', 'ª', 'Ａ', 'Ⅰ'):
            for shape in ('b{}', 'b{}c', 'b_{}', '{}b', 'b1{}', '{}'):
                n = shape.format(ch)
                for kind, tmpl in slots:
                    text = tmpl.format(n=n, N=n.upper() if n.upper() != n and len(n.upper()) == len(n) else 'A' + n)
                    r.count('evaluations')
                    r.count('states')
                    probs = compare_text(kind, text, None, r)
                    _add(r, [(f'character outside ASCII in a name: {k_}', d) for k_, d in probs], {'kind': kind, 'text': text}, len(text))
        r.sample({'charset': 'globally : no béc'})
    elif what == 'proplayout':
        # layouts of property texts: every single (double) separator deviation
        for kind in ('prop', 'spec', 'pred'):
            for text in CORPUS[kind]:
                toks = text.split(' ')
                base = ref_outcome(kind, text)
                for seps in layouts(toks, b['layout_dev']):
                    t2 = absyn.join(toks, seps)
                    r.count('evaluations')
                    r.count('states')
                    probs = compare_text(kind, t2, base[1] if base[0] == 'tree' else None, r)
                    _add(r, [(f'layout changes the result: {k_}', d) for k_, d in probs], {'kind': kind, 'text': t2}, len(toks))
    return r


def T_is_bool(t):
    from hplmc.ref import types as T

    return T.definite(t) == T.B


def normalise_own_alias(p):
    """`t as A {f}` stores f with @A rewritten to the message itself."""
    from hplmc.checks.c13 import subst_this_for_var

    def ev_(e):
        if e is None:
            return None
        if e[0] == 'evor':
            return ('evor', ev_(e[1]), ev_(e[2]))
        if e[2] and e[3][0] == 'pred':
            return ('event', e[1], e[2], ('pred', subst_this_for_var(e[3][1], e[2])))
        return e

    _, scope, pat = p
    return ('property', ('scope', scope[1], ev_(scope[2]), ev_(scope[3])), ('pattern', pat[1], ev_(pat[2]), ev_(pat[3]), pat[4], pat[5]))


def replay(w):
    if w.get('kind') == 'sync':
        return [{'sig': k, 'detail': d} for k, d in check_grammar_sync(Result())]
    if w.get('layout'):
        t, _ = RP.parse('expr', w['text'])
        probs, _n = check_layouts(t, 'thorough', Result())
        return [{'sig': k, 'detail': d} for k, d in probs]
    if w.get('module_level'):
        import hpl.parser as HP

        fn = {'expr': HP.parse_expresion, 'cond': HP.parse_condition, 'pred': HP.parse_predicate, 'prop': HP.parse_property, 'spec': HP.parse_specification}[w['kind']]
        st, obj = impl.try_parse(w['kind'], w['text'])
        exp = (st, absyn.canon(absyn.lift(obj, typed=True)) if st == 'ok' else None)
        try:
            got = ('ok', absyn.canon(absyn.lift(fn(w['text']), typed=True)))
        except Exception as e:  # noqa: BLE001
            got = (impl.outcome_class(e), None)
        return [] if got == exp else [{'sig': f'module-level {fn.__name__} disagrees with the parser object', 'detail': f'{got[0]} vs {exp[0]}'}]
    if w.get('before'):
        compare_text(w['kind'], w['before'], None, None)  # the text parsed just before on the same parser object
    return [{'sig': k, 'detail': d} for k, d in compare_text(w['kind'], w['text'], None, None)]


def describe(tier):
    b = bounds(tier)
    return {
        'rule': f"U1: all Bool/Num/Str terms <= {b['nodes']} nodes (every expression node kind; ints, decimals, exponents, leading-dot numbers, escaped strings, constants) in minimal and full parenthesisation through the expression, predicate and condition entry points and (predicates) inside a property and a specification file, which use the other embedded grammar; the operator-pair matrix: every well-sorted (a op1 b) op2 c and a op1 (b op2 c) over all pairs of the 16 binary operators plus unary operators and quantifiers in operand positions (344 terms) through all five entry points; U2: every property skeleton (widths <= {b['max_width']}) x 4 decorations x 6 time bounds x 3 metadata forms; U3: all layouts (newline, tab, glued) and redundant parentheses with <= {b['layout_dev']} deviations on terms <= {b['layout_nodes']} nodes and on the property/specification corpus; U4: all token sequences of length <= {b['seq_len_full']} over a {len(FULL_ALPHABET)}-token alphabet for 5 entry points, <= {b['seq_len_core']} over a {len(CORE_ALPHABET)}-token core alphabet (properties: <= {b['seq_len_core'] + 2} over {len(PROP_CORE)} tokens), all single token edits{' and double edits' if b['double_edits'] else ''} of a {sum(len(v) for v in CORPUS.values())}-text corpus; U5: grammar files vs embedded grammar on the corpus and its edits; U7: 21 predicates that use the event's own alias in every slot kind (range bounds with all bracket forms, set elements, indices, function arguments incl. the whole message, quantifier domains and bodies) x 5 property positions; U6: {len(PREFIXED)} keyword-prefixed names as field, nested field, variable, quantified variable, topic and alias. A state = one text; Plus the five module-level helpers (parse_specification / parse_property / parse_predicate / parse_condition / parse_expresion; a new parser per call) on the corpus, 6 layouts / ill-formed neighbours of every corpus text and 21 extra texts, compared with the parser objects. Plus every ordered pair of 14 strings that differ in inner / leading / trailing blanks (or look like HPL text) as string literal, title and description, parsed one after the other on the same parser object through 7 entry-point shapes; a transition = one real parse; every text is decided three ways (generator tree / reference parser / implementation).",
        'bounds': b,
        'exhaustive': True,
        'assumptions': [
            'reference recursive-descent parser (hplmc/ref/parse.py) defines the documented grammar; texts in which an identifier equals a keyword are outside the specified language and are skipped (counted in notes)',
        ],
    }
