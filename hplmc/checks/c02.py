"""C02 - a property is accepted iff every alias reference is bound earlier, once.

Universe: scope kind x pattern kind x (simple or 2-wide disjunction per
position) x alias placement x reference placement (top level, quantifier body,
quantifier domain), enumerated with a feature-deviation bound: every combination
of <= k non-default features (default = simple events, no alias, no reference);
plus the quantifier-hygiene and duplicate-channel sub-universes.
Three construction routes: parser, public constructors, but() copies.
Oracle: independent scoping function implementing the statement literally.
"""

from __future__ import annotations

from itertools import combinations

from hplmc import absyn, impl, props
from hplmc.core import Result, chunks
from hplmc.universe import alias_field, num, this_field

ID = 'C02'
tf = this_field
NAMES = ('A', 'B', 'Z')
PLACEMENTS = ('top', 'body', 'domain')
DEEP_PLACEMENTS = ('range', 'set', 'index', 'call', 'nested-domain')  # inside literals, indices, arguments, a domain of a nested quantifier


def bounds(tier):
    """Two feature menus, each explored completely up to its own deviation bound."""
    if tier == 'quick':
        return {
            'menus': [
                {'features': 3, 'names': ('A', 'B'), 'placements': ('top', 'domain')},
                # names of several letters, one a prefix of the other (one-letter strings are shared objects in CPython)
                {'features': 2, 'names': ('A', 'B'), 'placements': PLACEMENTS, 'spelling': {'A': 'Pose', 'B': 'Po', 'Z': 'ose'}},
                {'features': 4, 'names': ('A',), 'placements': ('top',)},
                {'features': 2, 'names': ('A', 'B'), 'placements': DEEP_PLACEMENTS},
            ]
        }
    return {
        'menus': [
            {'features': 4, 'names': ('A', 'B'), 'placements': ('top', 'domain')},
            {'features': 3, 'names': ('A', 'B'), 'placements': PLACEMENTS, 'spelling': {'A': 'Pose', 'B': 'Po', 'Z': 'ose'}},
            {'features': 5, 'names': ('A',), 'placements': ('top',)},
            {'features': 3, 'names': ('A', 'B'), 'placements': DEEP_PLACEMENTS},
        ]
    }


def ref_pred(name, placement):
    if placement == 'top':
        return ('pred', ('bin', '=', tf('x'), alias_field(name, 'x')))
    if placement == 'body':
        return ('pred', ('quant', 'forall', 'i', tf('xs'), ('bin', '>', ('var', 'i'), alias_field(name, 'x'))))
    if placement == 'range':
        return ('pred', ('bin', 'in', tf('x'), ('range', num(0), alias_field(name, 'x'), False, True)))
    if placement == 'set':
        return ('pred', ('bin', 'in', tf('x'), ('set', (num(0), alias_field(name, 'x')))))
    if placement == 'index':
        return ('pred', ('bin', '>', ('index', tf('xs'), alias_field(name, 'x')), num(0)))
    if placement == 'call':
        return ('pred', ('bin', '>', ('call', 'abs', (('un', '-', alias_field(name, 'x')),)), num(0)))
    if placement == 'nested-domain':
        return ('pred', ('quant', 'forall', 'i', tf('xs'), ('quant', 'exists', 'j', ('range', ('var', 'i'), alias_field(name, 'x'), False, False), ('bin', '>', ('var', 'j'), num(0)))))
    return ('pred', ('quant', 'exists', 'i', alias_field(name, 'xs'), ('bin', '>', ('var', 'i'), num(0))))


def slots_of(sk, pk):
    """Event slots (position, alternative index) with width 2 available everywhere."""
    return [(p, j) for p in props.positions(sk, pk) for j in (0, 1)]


def features(sk, pk, b):
    pos = props.positions(sk, pk)
    fs = [('wide', p) for p in pos]
    for p in pos:
        for j in (0, 1):
            sp = b.get('spelling', {})
            for n in b['names']:
                fs.append(('alias', p, j, sp.get(n, n)))
            for n in b['names'] + ('Z',):
                n = sp.get(n, n)
                for pl in b['placements']:
                    fs.append(('ref', p, j, n, pl))
    return fs


def consistent(combo):
    """A feature set is realisable: second alternatives need the position to be wide;
    one alias / one reference per event."""
    wide = {f[1] for f in combo if f[0] == 'wide'}
    seen_alias, seen_ref = set(), set()
    for f in combo:
        if f[0] in ('alias', 'ref'):
            if f[2] == 1 and f[1] not in wide:
                return False
            key = (f[1], f[2])
            if f[0] == 'alias':
                if key in seen_alias:
                    return False
                seen_alias.add(key)
            else:
                if key in seen_ref:
                    return False
                seen_ref.add(key)
    return True


def build_abstract(sk, pk, combo):
    pos = props.positions(sk, pk)
    wide = {f[1] for f in combo if f[0] == 'wide'}
    alias = {(f[1], f[2]): f[3] for f in combo if f[0] == 'alias'}
    ref = {(f[1], f[2]): (f[3], f[4]) for f in combo if f[0] == 'ref'}
    evs = {}
    for p in pos:
        alts = []
        for j in range(2 if p in wide else 1):
            pred = props.PTRUE
            if (p, j) in ref:
                pred = ref_pred(*ref[(p, j)])
            alts.append(props.ev(f'{props.TOPIC_PREFIX[p]}{j + 1}', alias.get((p, j)), pred))
        evs[p] = alts
    return props.make_property(
        sk, pk,
        act=props.disj(evs['act']) if 'act' in evs else None, term=props.disj(evs['term']) if 'term' in evs else None,
        trig=props.disj(evs['trig']) if 'trig' in evs else None, beh=props.disj(evs['beh']),
    )


# ---------------------------------------------------------------------------
# the oracle
# ---------------------------------------------------------------------------


def _free_alias_refs(pred):
    from hplmc.checks.c10 import free_vars

    if pred[0] != 'pred':
        return set()
    return free_vars(pred[1])


def scoping_verdict(p):
    """'ok' or a reason string, from the statement of C02."""
    _, scope, pat = p
    pk = pat[1]
    ev_at = {'act': scope[2], 'term': scope[3], 'beh': pat[2], 'trig': pat[3]}
    # (iii) duplicate channels inside one disjunction
    for pos, e in ev_at.items():
        names = [a[1] for a in props.alternatives(e)]
        if len(names) != len(set(names)):
            return f'duplicate channel in the {pos} disjunction'
    chain_main = (['act'] if ev_at['act'] is not None else []) + props.binding_chain(pk)
    chain_term = (['act'] if ev_at['act'] is not None else []) + (['term'] if ev_at['term'] is not None else [])

    def check_chain(chain, already_checked):
        available = set()
        for pos in chain:
            e = ev_at[pos]
            alts = props.alternatives(e)
            if pos not in already_checked:
                for a in alts:
                    for r in _free_alias_refs(a[3]):
                        if r == a[2]:
                            continue  # own alias: the message itself
                        if r not in available:
                            return f'{pos}: reference to @{r} which no earlier event binds'
                bound_here = {a[2] for a in alts if a[2]}
                if bound_here & available:
                    return f'{pos}: alias {sorted(bound_here & available)} bound a second time'
            available |= {a[2] for a in alts if a[2]}
        return None

    v = check_chain(chain_main, set())
    if v:
        return v
    v = check_chain(chain_term, {'act'})
    if v:
        return v
    return 'ok'


# ---------------------------------------------------------------------------
# routes
# ---------------------------------------------------------------------------


def outcome(fn):
    try:
        fn()
        return 'ok'
    except Exception as e:  # noqa: BLE001
        return impl.outcome_class(e)


def route_parser(p):
    text = absyn.property_text(p)
    return outcome(lambda: impl.parser('prop').parse(text))


def route_api(p):
    return outcome(lambda: absyn.build(p))


def route_but(p, sk, pk):
    """Start from the valid all-default property of the skeleton and swap in parts."""
    import hpl.ast as A

    def go():
        base = absyn.build(build_abstract(sk, pk, ()))
        scope = absyn.build(p[1])
        pattern = absyn.build(p[2])
        # (a) whole scope and pattern at once
        q1 = base.but(scope=scope, pattern=pattern)
        # (b) event by event through pattern.but / scope.but
        pat2 = base.pattern.but(behaviour=pattern.behaviour)
        if pattern.trigger is not None:
            pat2 = pat2.but(trigger=pattern.trigger)
        sc2 = base.scope
        if scope.activator is not None:
            sc2 = sc2.but(activator=scope.activator)
        if scope.terminator is not None:
            sc2 = sc2.but(terminator=scope.terminator)
        q2 = base.but(pattern=pat2).but(scope=sc2) if False else base.but(pattern=pat2, scope=sc2)
        assert isinstance(q1, A.HplProperty) and isinstance(q2, A.HplProperty)
        return q1

    return outcome(go)


def route_but_stepwise(p, sk, pk):
    """Copy chain that passes through intermediate properties: the final copy must
    be judged like the final property, and an intermediate rejection is only
    acceptable if that intermediate property is itself invalid."""
    def go():
        base = absyn.build(build_abstract(sk, pk, ()))
        cur_abs = build_abstract(sk, pk, ())
        cur = base
        for pos in props.positions(sk, pk):
            e_abs = props.get_event(p, pos)
            cur_abs = props.with_event(cur_abs, pos, e_abs)
            e = absyn.build(e_abs)
            if pos in ('act', 'term'):
                sc = cur.scope.but(**{'activator' if pos == 'act' else 'terminator': e})
                step = lambda sc=sc: cur.but(scope=sc)  # noqa: E731
            else:
                pt = cur.pattern.but(**{'behaviour' if pos == 'beh' else 'trigger': e})
                step = lambda pt=pt: cur.but(pattern=pt)  # noqa: E731
            exp = scoping_verdict(cur_abs)
            try:
                cur = step()
                got = 'ok'
            except Exception as ex:  # noqa: BLE001
                got = impl.outcome_class(ex)
            if (exp == 'ok') != (got == 'ok') or (got not in ('ok', 'sanity')):
                raise StepMismatch(f'after setting {pos}: expected {exp}, got {got}')
            if got != 'ok':
                return

    try:
        go()
        return None
    except StepMismatch as e:
        return str(e)


class StepMismatch(Exception):
    pass


def route_derived(p, sk, pk):
    """Every event of the target is *derived with but()* from an event that already
    sits in a checked, valid property (and has been queried); then the reverse:
    the default events are derived from the target's events.  Returns
    (outcome for the target, outcome for the re-derived default property)."""
    import hpl.ast as A

    def derive(src, e_abs):
        """real simple event src -> real event with the fields of e_abs, via but()"""
        src.external_references()
        src.contains_self_reference()
        out = src.but(name=e_abs[1], alias=e_abs[2], predicate=absyn.build(e_abs[3]))
        out.external_references()
        return out

    def derive_any(src, e_abs):
        alts = props.alternatives(e_abs)
        evs = [derive(src, a) for a in alts]
        cur = evs[-1]
        for e in reversed(evs[:-1]):
            cur = A.HplEventDisjunction(e, cur)
        return cur

    def assemble(base, events):
        sc, pt = base.scope, base.pattern
        if 'act' in events:
            sc = sc.but(activator=events['act'])
        if 'term' in events:
            sc = sc.but(terminator=events['term'])
        pt = pt.but(behaviour=events['beh'])
        if 'trig' in events:
            pt = pt.but(trigger=events['trig'])
        return base.but(scope=sc, pattern=pt)

    default_abs = build_abstract(sk, pk, ())
    positions = props.positions(sk, pk)

    def forward():
        base = absyn.build(default_abs)
        src = {pos: props_real_event(base, pos) for pos in positions}
        return assemble(base, {pos: derive_any(src[pos], props.get_event(p, pos)) for pos in positions})

    def backward():
        base = absyn.build(default_abs)
        # the target's events exist on their own even if the target property is invalid
        tgt = {pos: absyn.build(props.get_event(p, pos)) for pos in positions}
        firsts = {pos: next(iter(tgt[pos].simple_events())) for pos in positions}
        return assemble(base, {pos: derive_any(firsts[pos], props.get_event(default_abs, pos)) for pos in positions})

    return outcome(forward), outcome(backward)


def props_real_event(prop, pos):
    return {'act': prop.scope.activator, 'term': prop.scope.terminator, 'beh': prop.pattern.behaviour, 'trig': prop.pattern.trigger}[pos]


def check_property(p, sk, pk, r):
    problems = []
    exp = scoping_verdict(p)
    want = 'ok' if exp == 'ok' else 'sanity'
    r.outcomes['expected:' + ('ok' if exp == 'ok' else exp.split(':')[-1].strip()[:40])] += 1
    text = absyn.property_text(p)
    for name, fn in (('parser', lambda: route_parser(p)), ('api', lambda: route_api(p)), ('but', lambda: route_but(p, sk, pk))):
        r.count('transitions')
        got = fn()
        if got != want:
            if want == 'ok':
                problems.append((f'valid property rejected ({got}) [{name}]', f'«{text}»'))
            elif got == 'ok':
                problems.append((f'invalid property accepted [{name}]: {_reason_class(exp)}', f'«{text}»: {exp}'))
            else:
                problems.append((f'invalid property raises {got} instead of a sanity error [{name}]', f'«{text}»: {exp}'))
    r.count('transitions', 2)
    try:
        fwd, bwd = route_derived(p, sk, pk)
    except Exception as e:  # noqa: BLE001
        fwd, bwd = 'harness:' + type(e).__name__, 'ok'
    if fwd != want:
        if want == 'ok':
            problems.append((f'valid property rejected ({fwd}) [events derived with but() from checked events]', f'«{text}»'))
        elif fwd == 'ok':
            problems.append((f'invalid property accepted [events derived with but() from checked events]: {_reason_class(exp)}', f'«{text}»: {exp}'))
        else:
            problems.append((f'invalid property raises {fwd} instead of a sanity error [derived events]', f'«{text}»: {exp}'))
    if bwd != 'ok':
        problems.append((f'valid default property rejected ({bwd}) when its events are derived with but() from other events', f'from «{text}»'))
    r.count('transitions')
    sm = route_but_stepwise(p, sk, pk)
    if sm:
        problems.append(('a but() copy is judged differently from the property it denotes', f'«{text}»: {sm}'))
    return problems


def _reason_class(exp):
    if 'duplicate channel' in exp:
        return 'duplicate channel'
    if 'second time' in exp:
        return 'alias bound twice'
    return 'reference not bound earlier'


# ---------------------------------------------------------------------------
# sub-universes: quantifier hygiene, duplicate channels
# ---------------------------------------------------------------------------

HYGIENE = [
    ('ok', 'forall i in xs: @i > 0'),
    ('ok', 'forall i in xs: (exists j in ys: @i > @j)'),
    ('ok', '(forall i in xs: @i > 0) and (exists i in ys: @i > 1)'),
    ('ok', 'forall i in xs: (@i > 0 and exists j in {@i, 1}: @j > 0)'),
    ('sanity', 'forall i in xs: p'),
    ('sanity', 'forall i in xs: (exists j in ys: @j > 0)'),
    ('sanity', 'forall i in [0 to @i]: @i > 0'),
    ('sanity', 'forall i in {@i}: @i > 0'),
    ('sanity', 'forall i in rows[@i]: @i > 0'),
    ('sanity', 'exists i in m.rows[len(cols) - @i].cols: @i > 0'),
    ('sanity', 'forall i in [0 to xs[@i]]: @i > 0'),
    ('ok', 'forall i in rows[@j]: (exists j in xs: @i > @j)') if False else ('ok', 'forall i in rows[x]: @i > 0'),
    ('sanity', 'forall x in xs: (p and exists x in ys: @x > 0)'),
    ('sanity', 'forall x in xs: (p and (q or not (exists x in ys: @x > 0)))'),
    ('sanity', 'exists i in xs: (@i > 0 and forall i in ys: @i > 1)'),
    ('sanity', 'exists i in xs: (forall j in ys: (exists i in zs: @i > @j))'),
    ('sanity', 'forall i in xs: (forall j in [0 to @j]: @i > @j)'),
    ('sanity', '@i > 0 and forall i in xs: @i > 1'),
    ('sanity', '(forall i in xs: @i > 0) and @i > 1'),
]

DUPLICATES = [
    ('ok', '(a or b)'), ('ok', '(a or b or c)'), ('ok', '(a or b or c or d)'), ('ok', '(a as X or b as X)'),
    ('sanity', '(a or a)'), ('sanity', '(a or b or a)'), ('sanity', '(a or b or c or b)'), ('sanity', '(a as X or a as Y)'),
    ('sanity', '(a {x > 1} or a {x < 1})'), ('sanity', '(a or b or c or a {p})'),
]


def hygiene_verdict(t, aliases=frozenset(), bound=frozenset()):
    """Rule (iv) and the variable part of rule (i) on a reference tree of a predicate condition: 'ok' | 'sanity'."""

    def free_uses(u, name):
        # occurrences of @name in u (an occurrence below a quantifier that re-binds the name still counts as a use:
        # such a nesting is rejected anyway)
        if not isinstance(u, tuple) or not u:
            return False
        if u[0] == 'var':
            return u[1] == name
        return any(free_uses(x, name) if isinstance(x, tuple) and x and isinstance(x[0], str) else any(free_uses(y, name) for y in x if isinstance(y, tuple)) for x in u[1:] if isinstance(x, tuple))

    def walk(u, bound):
        if not isinstance(u, tuple) or not u:
            return True
        if u[0] == 'var':
            return u[1] in bound or u[1] in aliases
        if u[0] == 'quant':
            _, _q, v, dom, body = u
            if v in bound:
                return False  # nested inside a quantifier binding the same name
            if free_uses(dom, v) or not free_uses(body, v):
                return False
            inner = bound | {v}
            return walk(dom, inner) and walk(body, inner)  # a quantifier in the domain is nested inside this one, too
        ok = True
        for x in u[1:]:
            if isinstance(x, tuple):
                if x and isinstance(x[0], str):
                    ok = walk(x, bound) and ok
                else:
                    for y in x:
                        if isinstance(y, tuple):
                            ok = walk(y, bound) and ok
        return ok

    return 'ok' if walk(t, frozenset(bound)) else 'sanity'


def run_sub(r):
    problems = []
    from hplmc.checks.c07 import hygiene_bodies
    from hplmc.ref import parse as RP

    generated = []
    for cond in hygiene_bodies():
        try:
            tree, _ = RP.parse('expr', cond)
        except Exception:  # noqa: BLE001
            r.notes['hygiene body outside the reference grammar'] += 1
            continue
        generated.append((hygiene_verdict(tree), cond))
    for want, cond in HYGIENE:
        tree, _ = RP.parse('expr', cond)
        if hygiene_verdict(tree) != want:
            problems.append(('HARNESS-ERROR hygiene oracle disagrees with the hand-written verdict', f'«{cond}»: {want} vs {hygiene_verdict(tree)}'))
    for want, cond in HYGIENE + generated:
        r.outcomes['hygiene:' + want] += 1
        for tmpl in ('globally: no t { %s }', 'after s: t { %s } causes u', 'until t { %s }: some u'):
            text = tmpl % cond
            r.count('evaluations')
            r.count('states')
            r.count('transitions', 2)
            st, obj = impl.try_parse('prop', text)
            if st == 'type':
                r.notes['hygiene text rejected with a type error'] += 1
                continue
            if st != want:
                problems.append((f'quantifier hygiene: expected {want}, got {st} [parser]', f'«{text}»'))
            # API route: rebuild the predicate from the reference parse of the condition
            from hplmc.ref import parse as RP

            tree, _ = RP.parse('prop', text)
            got = route_api(tree)
            if got != want:
                problems.append((f'quantifier hygiene: expected {want}, got {got} [api]', f'«{text}»'))
    for want, evtext in DUPLICATES:
        for tmpl in ('globally: no %s', 'after %s: some z', 'until %s: some z', 'globally: %s causes z', 'globally: z requires %s'):
            text = tmpl % evtext
            r.count('evaluations')
            r.count('states')
            r.count('transitions', 3)
            st, obj = impl.try_parse('prop', text)
            if st != want:
                problems.append((f'duplicate channels: expected {want}, got {st} [parser]', f'«{text}»'))
            from hplmc.ref import parse as RP

            tree, _ = RP.parse('prop', text)
            for nest in ('right', 'left'):
                t2 = tree
                for pos in ('act', 'term', 'trig', 'beh'):
                    e = props.get_event(tree, pos)
                    if e is not None and e[0] == 'evor':
                        t2 = props.with_event(t2, pos, props.disj(props.alternatives(e), nest))
                got = route_api(t2)
                if got != want:
                    problems.append((f'duplicate channels: expected {want}, got {got} [api {nest}-nested]', f'«{text}»'))
    return problems


def plan(tier):
    units = []
    for mi, menu in enumerate(bounds(tier)['menus']):
        for sk in props.SCOPES:
            for pk in props.PATTERNS:
                fs = features(sk, pk, menu)
                firsts = [()] + [(f,) for f in fs]
                for c in chunks(firsts, max(1, len(firsts) // 8)):
                    units.append(('skel', tier, sk, pk, c, mi))
    units.append(('sub', tier))
    return units


def run(unit):
    r = Result()
    what, tier = unit[0], unit[1]
    if what == 'sub':
        for kind, detail in run_sub(r):
            r.violation(kind, {'text': detail}, detail, size=len(detail))
        r.count('validated', r.counters['evaluations'])
        return r
    _, _, sk, pk, firsts, mi = unit
    b = bounds(tier)['menus'][mi]
    fs = features(sk, pk, b)
    index = {f: i for i, f in enumerate(fs)}
    for first in firsts:
        # every combination of <= k features whose smallest member is `first` (or the empty one)
        if not first:
            combos = [()]
        else:
            rest = fs[index[first[0]] + 1:]
            combos = [first]
            for d in range(1, b['features']):
                combos += [first + c for c in combinations(rest, d)]
        for combo in combos:
            if not consistent(combo):
                continue
            p = build_abstract(sk, pk, combo)
            r.count('evaluations')
            r.count('states')
            probs = check_property(p, sk, pk, r)
            r.count('validated')
            for kind, detail in probs:
                r.violation(f'{kind} [{pk}]', {'scope': sk, 'pattern': pk, 'features': [list(f) for f in combo], 'text': absyn.property_text(p)}, detail, size=len(combo) * 1000 + len(detail))
            if len(r.samples) < 1 and len(combo) == 2:
                r.sample({'property': absyn.property_text(p), 'expected': scoping_verdict(p)})
    return r


def replay(w):
    r = Result()
    if 'features' not in w:
        return [{'sig': k, 'detail': d} for k, d in run_sub(r)]
    combo = tuple(tuple(f) for f in w['features'])
    p = build_abstract(w['scope'], w['pattern'], combo)
    return [{'sig': k, 'detail': d} for k, d in check_property(p, w['scope'], w['pattern'], r)]


def describe(tier):
    b = bounds(tier)
    menus = '; '.join(f"<= {m['features']} features with aliases {list(m['names'])} and placements {list(m['placements'])}" for m in b['menus'])
    return {
        'rule': f"every scope kind x pattern kind x every combination of features ({menus}) from: make a position a 2-wide disjunction; give an event (either alternative of any position) an alias; give an event a reference to an alias or to Z (never bound) placed at top level / in a quantifier body / in a quantifier domain (one menu: inside a range literal / a set literal / an index / a function argument / the domain of a nested quantifier). Each property is built four ways (parser; constructors; but() copies from the all-default property: at once, event by event, and stepwise through intermediate properties; events derived with but() from events that already sit in a checked property and have been queried, in both directions) and the accept / sanity-error outcome compared with an independent scoping function. Plus 20 hand-written and generated quantifier-hygiene predicates (8 outer quantifiers x 16 wrappers x 6 inner quantifiers that re-bind / shadow / leak / never use a variable, verdict from an independent implementation of rule (iv)) x 3 positions x parser and API routes and 10 duplicate-channel disjunctions x 5 positions x both nestings. A state = one property; a transition = one construction.",
        'bounds': {'menus': [[m['features'], len(m['names']), len(m['placements'])] for m in b['menus']]},
        'exhaustive': True,
        'assumptions': ['the same alias on two alternatives of one disjunction is parallel binding, not re-binding; an alias bound on some alternatives counts as bound for later events (C02 wording)'],
    }
