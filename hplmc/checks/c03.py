"""C03 - every AST the library hands out is well-typed.

Explicit-state BFS (E4).  Initial states: every AST returned by the parser
entry points on the term universe (expression / predicate) and on a property
family.  Transitions: simplify, each element of split_and, each half of
refactor_reference(., A), the two this/var replacements, negate, join with each
predicate of a menu, every output of canonical_form.  Depth <= 2 (as the
property states).  The invariant (hplmc.ref.types) is evaluated in every state,
on every node.  States are deduplicated on the typed lift.
"""

from __future__ import annotations

from hplmc import absyn, impl, props
from hplmc.core import Result, chunks
from hplmc.ref import types as T
from hplmc.universe import FALSE, TRUE, Grammar, alias_field, num, this_field

ID = 'C03'
tf = this_field
NSHARD = 64


def bounds(tier):
    return {'nodes': 4 if tier == 'quick' else 5, 'depth': 2}


def grammar():
    atoms = {
        'N': [tf('x'), alias_field('A', 'x'), num(0), num(1)],
        'B': [tf('p'), alias_field('A', 'p'), TRUE],
        'S': [tf('s'), ('lit', '"a"', '"a"')],
        'A': [tf('xs')],
    }
    return Grammar(
        atoms,
        arith=('+', '-', '*', '/'), cmp=('=', '!=', '<', '>='), conn=('and', 'or', 'implies', 'iff'),
        funcs={'abs': ('N', 'N'), 'len': ('A', 'N'), 'sum': ('SET', 'N'), 'max': ('R', 'N'), 'min': ('A', 'N'), 'gcd': ('SET', 'N'), 'bool': ('N', 'B'), 'str': ('N', 'S')},
        quants=('forall', 'exists'), domains=('A', 'SET', 'R'),
        set_widths=(1, 2), range_flags=((False, False), (True, True)),
        inclusion=('A', 'SET', 'R'), index=True, eq_sorts=('N', 'B', 'S'),
    )


JOIN_MENU = ['{ y > 0 }', '{ q }', '{ True }', '{ False }', '{ x > 1 }', '{ @A.x = y }', '{ not x }', '{ p > 0 }', '{ len(s) > 0 }']  # the last three clash with the conventions of the universe: join must refuse, never hand out an ill-typed predicate


def plan(tier):
    b = bounds(tier)
    units = []
    for sort in ('B', 'N', 'S'):
        for n in range(1, b['nodes'] + 1):
            sh = 1 if n <= 3 else NSHARD
            units += [('terms', tier, sort, n, k, sh) for k in range(sh)]
    from hplmc.checks import c12

    fam = c12.family('quick')
    units += [('props', tier, fam[k::24]) for k in range(24)]
    units += [('matrix', tier, k, 16) for k in range(16)]
    units.append(('sharing', tier))
    units.append(('illtyped', tier))
    units.append(('castpairs', tier))
    return units


def kind_of(obj):
    n = type(obj).__name__
    if n in ('HplPredicateExpression', 'HplVacuousTruth', 'HplContradiction'):
        return 'pred'
    if n == 'HplProperty':
        return 'prop'
    if hasattr(obj, 'data_type'):
        return 'expr'
    return 'other'


def invariant(obj):
    """Problems of one state (expression / predicate / property)."""
    k = kind_of(obj)
    if k == 'expr':
        return T.wellformed(absyn.lift(obj, typed=True))
    if k == 'pred':
        return T.predicate_invariant(absyn.lift(obj, typed=True))
    if k == 'prop':
        from hplmc.ref import walk as W

        out = []
        for o in W.preorder(obj):
            if kind_of(o) == 'pred':
                out += T.predicate_invariant(absyn.lift(o, typed=True))
        return out
    return [('state is not an AST', type(obj).__name__)]


def transitions(obj, join_preds):
    """(label, callable -> list of result objects)"""
    import hpl.rewrite as R

    k = kind_of(obj)
    out = []
    if k in ('expr', 'pred'):
        out.append(('simplify', lambda: [R.simplify(obj)]))
        isbool = k == 'pred' or T.names_of(int(obj.data_type.value)) == T.B
        if isbool:
            out.append(('split_and', lambda: list(R.split_and(obj))))
            out.append(('refactor_reference(A)', lambda: list(R.refactor_reference(obj, 'A'))))
        out.append(('replace_this_with_var(Z)', lambda: [R.replace_this_with_var(obj, 'Z')]))
        out.append(('replace_var_with_this(A)', lambda: [R.replace_var_with_this(obj, 'A')]))
        # one untyped object placed in every position of the variable (the API shares it)
        import hpl.ast as A

        out.append(('replace_var_reference(k -> @w)', lambda: [obj.replace_var_reference('k', A.HplVarReference('@w'))]))
        out.append(('replace_var_reference(k -> m.f)', lambda: [obj.replace_var_reference('k', A.HplFieldAccess(A.HplFieldAccess(A.HplThisMessage(), 'm'), 'f'))]))
        # the same with a replacement that is already narrowed to "some primitive": positions that accept a
        # primitive keep the very object, stricter positions must narrow a copy
        from hpl.types import DataType

        out.append(('replace_var_reference(k -> primitive @w)', lambda: [obj.replace_var_reference('k', A.HplVarReference('@w').cast(DataType.PRIMITIVE))]))
        out.append(('replace_var_reference(k -> "s")', lambda: [obj.replace_var_reference('k', A.HplLiteral('"s"', '"s"'))]))
        out.append(('replace_var_reference(k -> True)', lambda: [obj.replace_var_reference('k', A.HplLiteral.true())]))
        out.append(('replace_var_reference(k -> 1)', lambda: [obj.replace_var_reference('k', A.HplLiteral('1', 1))]))
        out.append(('replace_var_reference(k -> primitive fld)', lambda: [obj.replace_var_reference('k', A.HplFieldAccess(A.HplThisMessage(), 'fld').cast(DataType.PRIMITIVE))]))
    if k == 'pred':
        out.append(('negate', lambda: [obj.negate()]))
        for i, q in enumerate(join_preds):
            out.append((f'join({JOIN_MENU[i]})', (lambda q=q: [obj.join(q)])))
    if k == 'prop':
        out.append(('canonical_form', lambda: list(R.canonical_form(obj))))
    return out


ALLOWED = {
    'simplify': ('ZeroDivisionError', 'ValueError', 'OverflowError'),
    'split_and': ('ValueError',),
    'replace_this_with_var(Z)': ('TypeError',),
    'replace_var_with_this(A)': ('TypeError',),
    'canonical_form': ('HplSanityError',),
}


def explore(root, label, r, depth, seen):
    """BFS from one initial state."""
    join_preds = [impl.parser('pred').parse(t) for t in JOIN_MENU]
    frontier = [(root, (label,))]
    for d in range(depth + 1):
        nxt = []
        for obj, hist in frontier:
            try:
                key = absyn.canon(absyn.lift(obj, typed=True))
            except absyn.LiftError:
                r.violation('a rewriting function returned a non-AST', {'history': list(hist)}, str(type(obj)), size=len(hist))
                continue
            if key in seen:
                continue
            seen.add(key)
            r.count('states')
            probs = invariant(obj)
            for kind, detail in probs[:2]:
                via = hist[-1].split('(')[0].split('[')[0] if len(hist) > 1 else 'parser'
                r.violation(f'{kind} [handed out by {via}]', {'history': list(hist)}, f'{" -> ".join(hist)}: {detail}', size=len(hist) * 1000 + len(hist[0]))
            if d == depth:
                continue
            snapshot = key
            for tl, fn in transitions(obj, join_preds):
                r.count('transitions')
                try:
                    results = fn()
                except Exception as e:  # noqa: BLE001
                    # failures of the rewriting functions are C14's business; join may legitimately clash
                    r.outcomes[f'{tl.split("(")[0]}:raised {type(e).__name__}'] += 1
                    continue
                r.outcomes[f'{tl.split("(")[0]}:ok'] += 1
                for j, res in enumerate(results):
                    nxt.append((res, hist + (f'{tl}[{j}]',)))
                # drift of the source state (in-place narrowing) is C16's business; note it
                try:
                    if absyn.canon(absyn.lift(obj, typed=True)) != snapshot:
                        r.notes['source state changed by a call (see C16)'] += 1
                        snapshot = absyn.canon(absyn.lift(obj, typed=True))
                except absyn.LiftError:
                    pass
        frontier = nxt


def run(unit):
    r = Result()
    what, tier = unit[0], unit[1]
    b = bounds(tier)
    seen = set()
    if what == 'terms':
        _, _, sort, n, k, shards = unit
        g = grammar()
        for i, t in enumerate(g.stream(sort, n)):
            if i % shards != k:
                continue
            text = absyn.expr_text(t)
            r.count('evaluations')
            st, e = impl.try_parse('expr', text)
            if st != 'ok':
                r.notes['rejected:' + st] += 1
                continue
            explore(e, f'parse_expression({text})', r, b['depth'], seen)
            if sort == 'B':
                st, p = impl.try_parse('pred', '{ ' + text + ' }')
                if st == 'ok':
                    explore(p, f'parse_predicate({{ {text} }})', r, b['depth'], seen)
            r.count('validated')
            if i % 997 == 0:
                r.sample({'initial': text})
    elif what == 'illtyped':
        # texts that must be rejected (C05's families): whatever the parser nevertheless hands out is a state
        from hplmc import sigmatrix

        texts = []
        doms = ['{1, 2}', '[0 to 3]', '{"a"}', '{True}']
        uses = ['not @i', '@i = "a"', '@i > 0', '@i and p', '@i + 1 = y']
        weak = ['@i = @v', '@i in {@v}']
        for d in doms:
            for u in uses:
                texts += [f'forall i in {d}: {u}', f'exists i in {d}: ({weak[0]} and {u})', f'forall i in {d}: ({u} and {weak[1]})', f'exists i in {d}: ({weak[1]} and ({weak[0]} and {u}))']
        texts += [absyn.expr_text(t) for _d, t in sigmatrix.invalid_cases()]
        # properties whose event refers to a field once directly and once through its own alias, at disjoint types
        ptexts = []
        for a, b_ in (('@M.x > 0', 'not x'), ('xs[@M.i + 1] > 0', 'i and p'), ('x in [0 to @M.k]', 'not k'), ('abs(@M.v) > 0', 'not v'), ('forall j in @M.zs: @j > 0', 'zs > 0')):
            for cond in (f'{a} and {b_}', f'{b_} and {a}'):
                ptexts.append(f'globally: no t as M {{ {cond} }}')
                ptexts.append(f'after s: (u or t as M {{ {cond} }}) causes w')
        for text in ptexts:
            r.count('evaluations')
            st, obj = impl.try_parse('prop', text)
            r.outcomes[f'illtyped:{st}'] += 1
            if st == 'ok':
                explore(obj, f'parse_property({text})', r, 1, seen)
        # the same computed-index element (no literal / variable / field index) used at two disjoint types
        for ref in ('xs[x + 1]', 'xs[-1]', 'xs[abs(x)]', 'xs[@i + 1]', 'ms[len(xs) - 1].f', 'xs[xs[0]]', 'xs[x * 2]'):
            for use1, use2 in (('%s > 0', 'not %s'), ('not %s', '%s + 1 > 0'), ('%s in {1}', '%s.f > 0'), ('%s = "a"', '%s + 1 > 0')):
                texts += [f'{use1 % ref} and {use2 % ref}', f'{use2 % ref} and ({use1 % ref} and y = y)', f'{use1 % ref} implies {use2 % ref}']
        # a bound variable used at two disjoint types, the occurrences spread over nested quantifier scopes
        for u1, u2 in (('@i > 0', 'not @i'), ('not @i', '@i > 0'), ('@i = "a"', 'xs[@i] > 0'), ('x in [0 to @i]', '@i and p')):
            texts += [f'forall i in ys: ({u1} and exists j in zs: (@j > 0 and {u2}))', f'forall i in ys: ((exists j in zs: (@j > 0 and {u2})) and {u1})',
                      f'forall i in ys: ({u1} and forall j in zs: (exists k in ws: (@k > @j and {u2})))', f'exists i in ys: (forall j in [0 to len(zs)]: ({u1} and @j > 0) and {u2})']
        texts += ['x > 0 and x = y and x = "a"', 'x and (x = y) and x > 0', 'not x and x in {y} and len(x) > 0', '1 = "a"', '(x + 1) = "a" or p', 'len(xs) = True']
        for text in texts:
            r.count('evaluations')
            for kind in ('pred', 'expr'):
                st, obj = impl.try_parse(kind, '{ ' + text + ' }' if kind == 'pred' else text)
                r.outcomes[f'illtyped:{st}'] += 1
                if st == 'ok':
                    explore(obj, f'parse_{"predicate" if kind == "pred" else "expression"}({"{ " + text + " }" if kind == "pred" else text})', r, 1, seen)
            r.count('validated')
        r.sample({'must_be_rejected': texts[1]})
    elif what == 'castpairs':
        # nodes built through the constructors over references that were narrowed beforehand: every ordered pair of
        # type sets (the 7 non-empty sets of primitives, arrays, messages, and some unions with them) under every
        # binary operator / a set / a range / an index; whatever the constructor hands out is a state
        import hpl.ast as A
        from hpl.types import DataType as D

        base = {'B': D.BOOL, 'N': D.NUMBER, 'S': D.STRING}
        menu = []
        for mask in range(1, 8):
            names = [n for i, n in enumerate('BNS') if mask >> i & 1]
            ty = D.NONE
            for n in names:
                ty = ty | base[n]
            menu.append((''.join(names), ty))
        menu += [('A', D.ARRAY), ('M', D.MESSAGE), ('NA', D.NUMBER | D.ARRAY), ('BM', D.BOOL | D.MESSAGE), ('NSA', D.NUMBER | D.STRING | D.ARRAY)]

        def ref(name, ty):
            return A.HplFieldAccess(A.HplThisMessage(), name).cast(ty)

        builders = [(op, (lambda a, b, op=op: A.HplBinaryOperator(op, a, b))) for op in ('=', '!=', '<', '+', 'and', 'implies', 'in')]
        builders += [
            ('set', lambda a, b: A.HplBinaryOperator('in', A.HplFieldAccess(A.HplThisMessage(), 'z'), A.HplSet((a, b)))),
            ('range', lambda a, b: A.HplBinaryOperator('in', A.HplFieldAccess(A.HplThisMessage(), 'z'), A.HplRange(a, b))),
            ('index', lambda a, b: A.HplBinaryOperator('=', A.HplArrayAccess(a, b), A.HplFieldAccess(A.HplThisMessage(), 'z'))),
            ('max', lambda a, b: A.HplBinaryOperator('=', A.HplFunctionCall('max', (a, b)), A.HplFieldAccess(A.HplThisMessage(), 'z'))),
        ]
        for n1, t1 in menu:
            for n2, t2 in menu:
                for bname, mk in builders:
                    r.count('evaluations')
                    try:
                        node = mk(ref('level', t1), ref('code', t2))
                    except Exception as e:  # noqa: BLE001
                        r.outcomes[f'castpairs:{type(e).__name__}'] += 1
                        continue
                    r.outcomes['castpairs:built'] += 1
                    label = f'constructor {bname}(level as {n1}, code as {n2})'
                    explore(node, label, r, 1, seen)
                    if node.can_be_bool:
                        # ... and inside a predicate together with a second, typed occurrence of each reference
                        for extra in ('code = "x"', 'level > 0', 'not level'):
                            try:
                                other = impl.parser('expr').parse(extra)
                                pred = A.HplPredicateExpression(A.HplBinaryOperator('and', node, other))
                            except Exception as e:  # noqa: BLE001
                                r.outcomes[f'castpairs pred:{type(e).__name__}'] += 1
                                continue
                            explore(pred, label + f' and {extra}', r, 1, seen)
                    r.count('validated')
        r.sample({'castpairs': 'HplBinaryOperator("=", level.cast(BOOL|NUMBER), code.cast(NUMBER|STRING))'})
    elif what == 'sharing':
        # predicates in which one variable occurs in positions of different strictness (=, set element, index,
        # arithmetic, function argument, quantifier domain bound): replacing it puts ONE object in all of them
        texts = [
            '(@k = @j) and xs[@k] > 0', 'xs[@k] > 0 and (@k = @j)', '@k in {@j} and xs[@k] = y', '@k = @j and abs(@k) > 0', 'abs(@k) > 0 and @k != @j',
            '@k = y and (@k + 1 > 0)', '(@k + 1 > 0) and @k = y', 'x in [0 to @k] and @k = @j', '@k = @j and (forall i in [0 to @k]: @i > 0)',
            'bool(@k) and @k > 0', '@k > 0 and str(@k) = s', '@k in {@j, 1} or @k = @j', 'len({@k}) > 0 and -@k < 0',
            'forall i in [1 to 3]: (@i = @k)', 'exists i in {1, 2}: (@k = @i and @i > 0)', 'forall i in {"a"}: (@i = @k or @k = s)', '@k = @j and (exists i in [0 to 2]: @i != @k)',
        ]
        for text in texts:
            r.count('evaluations')
            for kind in ('expr', 'pred'):
                st, obj = impl.try_parse(kind, text if kind == 'expr' else '{ ' + text + ' }')
                if st != 'ok':
                    r.notes['sharing rejected:' + st] += 1
                    continue
                explore(obj, f'parse_{"expression" if kind == "expr" else "predicate"}({text if kind == "expr" else "{ " + text + " }"})', r, 2, seen)
            r.count('validated')
        r.sample({'initial': texts[0]})
    elif what == 'matrix':
        from hplmc import sigmatrix

        _, _, k, shards = unit
        for i, (desc, t) in enumerate(sigmatrix.valid_cases()):
            if i % shards != k:
                continue
            text = absyn.expr_text(t)
            r.count('evaluations')
            st, p = impl.try_parse('pred', '{ ' + text + ' }')
            if st != 'ok':
                r.notes['rejected:' + st] += 1
                continue
            explore(p, f'parse_predicate({{ {text} }})', r, 1, seen)
            r.count('validated')
        r.sample({'initial': text})
    else:
        from hplmc.checks import c12

        for p in unit[2]:
            text = absyn.property_text(p, time=c12.time_text(p[2][5]))
            r.count('evaluations')
            st, obj = impl.try_parse('prop', text)
            if st != 'ok':
                r.notes['rejected:' + st] += 1
                continue
            explore(obj, f'parse_property({text})', r, 1, seen)
            r.count('validated')
        r.sample({'initial': text})
    return r


def replay(w):
    r = Result()
    h = w['history'][0]
    kind = {'parse_expression': 'expr', 'parse_predicate': 'pred', 'parse_property': 'prop'}[h.split('(')[0]]
    text = h[h.index('(') + 1:-1]
    obj = impl.parser(kind).parse(text)
    explore(obj, h, r, 2, set())
    return [{'sig': v['sig'], 'detail': v['detail']} for v in r.violations]


def describe(tier):
    b = bounds(tier)
    return {
        'rule': f"initial states: parser results for every Bool/Num/Str term with <= {b['nodes']} nodes (fields, alias fields, literals, 4 arithmetic / 4 comparison / 4 logical operators, abs len sum max min gcd bool str, sets, ranges, indexing, inclusion, both quantifiers) as expression and predicate, the C12 property family, the signature matrix (every operator and built-in function with every valid argument shape; depth 1), a 13-text family in which one variable occurs in positions of different strictness, and ~900 texts that must be rejected (bound variables outside their domain's element type, the invalid half of the signature matrix): whatever the parser accepts of them becomes a state; transitions: simplify, split_and elements, refactor_reference halves, both replacements, replace_var_reference with one shared untyped object (a variable / a field chain), negate, join with 6 predicates, canonical_form outputs; BFS (plus nodes built through the constructors over two references narrowed beforehand: every ordered pair of 12 type sets x 11 node builders, alone and conjoined with a second typed occurrence of a reference) to depth {b['depth']} with states deduplicated on the typed lift; the per-node invariant is evaluated in every state.",
        'bounds': b,
        'exhaustive': True,
        'assumptions': ['invariant table in hplmc/ref/types.py is the reference; bound-variable use is checked with the weakest reading (non-empty intersection with the element type)'],
    }
