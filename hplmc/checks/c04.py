"""C04 - well-typed specifications are never rejected.

Universe: schema family x every Bool term up to the node bound that is
well-typed under the schema (type-directed enumeration: every production is
only instantiated at sorts that fit), with references to the current message,
to an aliased earlier message and to quantified variables; wrapped into each
property position that can see the alias.
Oracle: no exception; the type set inferred for every reference contains the
declared base type; checking the property against the schema succeeds.
"""

from __future__ import annotations

from hplmc import absyn, impl, schemas
from hplmc.core import Result
from hplmc.ref import types as T
from hplmc.universe import FALSE, TRUE, Grammar, num

ID = 'C04'
NSHARD = 48


def bounds(tier):
    """node bound per schema"""
    if tier == 'quick':
        return {'nodes': 5, 'schema_nodes': {'flat': 5, 'arrays': 5, 'nested': 4, 'msgarrays': 4, 'kwnames': 4}}
    return {'nodes': 5, 'schema_nodes': {s: 5 for s in schemas.ALL_SCHEMAS}}


def grammar_for(schema_name):
    sc = schemas.FAMILY[schema_name]
    # the aliased message comes from another topic with its own message type
    atoms = schemas.atoms_for(sc, aliases={'A': schemas.renamed(sc)}, depth=3)
    atoms = {k: _interleave(v) for k, v in atoms.items()}
    # arrays that the enumerator indexes with the literals 0 and 1 must have room for them
    roots = {'this': sc, 'A': schemas.renamed(sc)}

    def roomy(node):
        d = schemas.resolve(node, roots)
        return d[2] < 0 or d[2] >= 2

    for k in ('A', 'AB', 'AS'):
        atoms[k] = [a for a in atoms[k] if roomy(a)]
    atoms['N'] = atoms['N'][:8] + [num(0), num(1)]
    atoms['B'] = atoms['B'][:6] + [TRUE]
    atoms['S'] = atoms['S'][:3] + [('lit', '"a"', '"a"')]
    atoms['A'] = atoms['A'][:3]
    atoms['AB'] = atoms['AB'][:2]
    doms = ['SET', 'R'] + [s for s in ('A', 'AB') if atoms[s]]
    return Grammar(
        atoms,
        arith=('+', '*', '**'), cmp=('=', '!=', '<'), conn=('and', 'implies'),
        funcs={'abs': ('N', 'N'), 'len': ('A', 'N'), 'sum': ('SET', 'N'), 'max': ('R', 'N'), 'bool': ('N', 'B'), 'int': ('S', 'N')},
        quants=('forall', 'exists'), domains=tuple(doms),
        set_widths=(1, 2), range_flags=((False, False), (True, False)),
        inclusion=tuple(d for d in doms if d != 'AB'), index=bool(atoms['A']), eq_sorts=('N', 'B', 'S'),
    )


def _interleave(nodes):
    """Alternate message-rooted and alias-rooted atoms so that truncation keeps both."""
    own = [n for n in nodes if not _alias_rooted(n)]
    ali = [n for n in nodes if _alias_rooted(n)]
    out = []
    for i in range(max(len(own), len(ali))):
        if i < len(own):
            out.append(own[i])
        if i < len(ali):
            out.append(ali[i])
    return out


def _alias_rooted(n):
    while n[0] in ('field', 'index'):
        n = n[1]
    return n[0] == 'var'


def plan(tier):
    b = bounds(tier)
    units = []
    for sname, nmax in b['schema_nodes'].items():
        for n in range(1, nmax + 1):
            sh = 1 if n <= 3 else NSHARD
            units += [(tier, sname, n, k, sh) for k in range(sh)]
    units += [(tier, 'matrix', 0, k, 16) for k in range(16)]
    units.append((tier, 'two-schemas', 0, 0, 1))
    units += [(tier, 'scopes', 0, k, 4) for k in range(4)]
    return units


def scope_cases():
    """Sibling quantifiers (each binds its own variable; the names may coincide) over domains of different
    element types, joined by every connective, in both orders; plus a third, nested quantifier."""
    from hplmc.universe import num, this_field as tf

    def V(n):
        return ('var', n)

    S_A, S_B = ('lit', '"a"', '"a"'), ('lit', '"b"', '"b"')
    menu = [
        lambda v: ('quant', 'forall', v, tf('xs'), ('bin', '>', V(v), num(0))),
        lambda v: ('quant', 'exists', v, ('range', num(0), num(3), False, False), ('bin', '>', ('bin', '+', V(v), tf('x')), num(0))),
        lambda v: ('quant', 'forall', v, ('set', (num(1), num(2))), ('bin', '>', ('index', tf('xs'), V(v)), num(0))),
        lambda v: ('quant', 'forall', v, tf('bs'), V(v)),
        lambda v: ('quant', 'exists', v, ('set', (('lit', 'True', True),)), ('bin', 'and', V(v), tf('p'))),
        lambda v: ('quant', 'forall', v, tf('bs'), ('un', 'not', V(v))),
        lambda v: ('quant', 'exists', v, ('set', (S_A, S_B)), ('bin', '=', V(v), tf('s'))),
        lambda v: ('quant', 'forall', v, ('set', (tf('s'),)), ('bin', '=', V(v), S_A)),
    ]
    out = []
    for i, q1 in enumerate(menu):
        for j, q2 in enumerate(menu):
            for n1, n2 in (('i', 'i'), ('i', 'j'), ('x', 'x'), ('p', 's')):
                for op in ('and', 'or', 'implies'):
                    out.append(('sibling quantifiers, ' + ('one name' if n1 == n2 else 'two names'), ('bin', op, q1(n1), q2(n2))))
            # a nested quantifier with another name inside the first, the second sibling reusing that inner name
            inner = ('quant', 'exists', 'k', tf('bs'), V('k'))
            a = q1('i')
            a = a[:4] + (('bin', 'and', a[4], inner),)
            out.append(('sibling quantifier reusing the name of a quantifier nested in the other', ('bin', 'and', a, q2('k'))))
            out.append(('sibling quantifier reusing the name of a quantifier nested in the other', ('bin', 'or', q2('k'), a)))
    # nested quantifiers whose outer variable occurs only in the domain of an inner one (range bound, set member,
    # array index, argument of a function), two and three levels deep
    def R(lo, hi):
        return ('range', lo, hi, False, False)

    body = ('bin', '>', ('index', tf('xs'), V('j')), num(0))
    doms_j = [R(num(0), V('i')), R(V('i'), num(5)), ('set', (V('i'), num(3))), R(num(0), ('call', 'abs', (V('i'),))), R(num(0), ('index', tf('xs'), V('i'))), R(('bin', '+', V('i'), num(1)), num(9))]
    for q1 in ('exists', 'forall'):
        for q2 in ('exists', 'forall'):
            for dom_i in (R(num(0), num(3)), ('set', (num(1), num(2))), tf('xs')):
                for dj in doms_j:
                    out.append(('outer variable used only in the domain of a nested quantifier', ('quant', q1, 'i', dom_i, ('quant', q2, 'j', dj, body))))
                    out.append(('outer variable used in the domain of a nested quantifier', ('quant', q1, 'i', dom_i, ('bin', 'and', ('quant', q2, 'j', dj, body), ('bin', '>', V('i'), tf('x'))))))
                    out.append(('outer variable used only in the domain of a nested quantifier', ('bin', 'or', tf('p'), ('quant', q1, 'i', dom_i, ('un', 'not', ('quant', q2, 'j', dj, body))))))
            out.append(('outer variable used only in the domain of a nested quantifier', ('quant', q1, 'i', R(num(0), num(3)), ('quant', q2, 'j', R(num(0), V('i')), ('quant', q1, 'k', R(V('j'), num(4)), ('bin', '>', ('index', tf('xs'), V('k')), num(0)))))))
    return out


def wrappers(t, force_alias=False):
    """Property texts that place predicate t where its references are in scope."""
    from hplmc.checks.c10 import mentions

    text = absyn.expr_text(t)
    if mentions(t, 'A') or force_alias:
        return [
            ('after s as A: no t { %s }' % text, {'this': 't', 'A': 's'}),
            ('globally: s as A causes t { %s }' % text, {'this': 't', 'A': 's'}),
            ('globally: (u or s as A) forbids t { %s }' % text, {'this': 't', 'A': 's'}),
            ('after s as A: u requires t { %s }' % text, {'this': 't', 'A': 's'}),
            ('globally: t { %s } requires s as A' % text, None),  # trigger cannot see the behaviour alias... (requires: behaviour binds first)
            ('after s as A until t { %s }: no u' % text, {'this': 't', 'A': 's'}),
            ('after s as A: no (u or t { %s })' % text, {'this': 't', 'A': 's'}),
            ('globally: s as A causes (t { %s } or u or w)' % text, {'this': 't', 'A': 's'}),
            ('after s as A until (u or t { %s }): some w' % text, {'this': 't', 'A': 's'}),
            # the alias is bound by the middle / the last of three alternatives (disjunctions nest), each with its own alias
            ('globally: (u as B or s as A or w as C) causes t { %s }' % text, {'this': 't', 'A': 's'}),
            ('after (u as B or w or s as A): no t { %s }' % text, {'this': 't', 'A': 's'}),
        ]
    return [
        ('globally: no t { %s }' % text, {'this': 't'}),
        ('globally: some t as A { %s }' % text, {'this': 't'}),
        ('until t { %s }: u causes w' % text, {'this': 't'}),
        ('after s until t { %s }: u forbids w' % text, {'this': 't'}),
        ('after t { %s }: u requires w' % text, {'this': 't'}),
        ('until u: w forbids (s or t { %s })' % text, {'this': 't'}),
    ]


def check_term(t, sname, r=None, force_alias=False):
    problems = []
    if sname == 'matrix':
        from hplmc import sigmatrix

        schemas.FAMILY.setdefault('matrix', sigmatrix.MATRIX_SCHEMA)
    sc = schemas.FAMILY[sname]
    tok = schemas.to_token(sc, 'M')
    atok = schemas.to_token(schemas.renamed(sc), 'MA')
    other = schemas.to_token(schemas.FAMILY['flat'], 'O')
    msg_types = {'t': tok, 's': atok, 'u': other, 'w': other}
    for text, roots in wrappers(t, force_alias):
        if roots is None:
            continue
        if r is not None:
            r.count('transitions')
        st, prop = impl.try_parse('prop', text)
        if st != 'ok':
            problems.append((f'well-typed property rejected by the parser ({st})', f'schema {sname}: «{text}»: {str(prop)[:200]}'))
            continue
        # inferred type of every reference contains the declared type
        lp = absyn.lift(prop, typed=True)
        root_types = {'this': sc, 'A': schemas.renamed(sc)}
        for ev in _events(lp):
            pred = ev[3]
            if pred[0] != 'pred':
                continue
            for tn, bound in _typed_accessors(pred[1]):
                plain = absyn.strip_types(tn)
                try:
                    d = schemas.resolve(plain, root_types, bound)
                except schemas.Unresolved as e:
                    problems.append(('HARNESS-ERROR generated path does not resolve', f'{plain}: {e}'))
                    continue
                if d is None:
                    continue
                if schemas.base_name(d) not in T.names_of(tn[1]):
                    problems.append(('inferred type set of a reference excludes its schema type', f'schema {sname}: «{text}»: {absyn.expr_text(plain)} declared {schemas.base_name(d)}, inferred {sorted(T.names_of(tn[1]))}'))
        if r is not None:
            r.count('transitions')
        try:
            prop.type_check_references(msg_types)
            if r is not None:
                r.outcomes['schema check ok'] += 1
        except Exception as e:  # noqa: BLE001
            problems.append((f'schema check of a well-typed property raised {type(e).__name__}', f'schema {sname}: «{text}»: {str(e)[:200]}'))
    return problems


def _events(lp):
    from hplmc.props import alternatives, get_event

    out = []
    for pos in ('act', 'term', 'trig', 'beh'):
        out += alternatives(get_event(lp, pos))
    return out


def _typed_accessors(tn, bound=frozenset()):
    """(typed accessor node, bound variables) for every accessor occurrence."""
    out = []
    node = tn[2]
    tag = node[0]
    if tag in ('field', 'index'):
        out.append((tn, bound))
    if tag == 'quant':
        out += _typed_accessors(node[3], bound)
        out += _typed_accessors(node[4], bound | {node[2]})
        return out
    for x in node[1:]:
        if isinstance(x, tuple):
            if x and x[0] == 't':
                out += _typed_accessors(x, bound)
            else:
                for y in x:
                    if isinstance(y, tuple) and y and y[0] == 't':
                        out += _typed_accessors(y, bound)
    return out


def run(unit):
    tier, sname, n, k, shards = unit
    r = Result()
    if sname == 'two-schemas':
        # one parsed property, checked against several schemas one after the other (E4 histories of
        # length 2 and 3): a check must not leave anything behind that changes the next one
        generic = ['x = y', 'x != y and z = x', 'x in {y, z}', 'forall i in xs: @i = y', 'x = @A.w', 'bool(x) or str(y) = "a"', 'xs[0] = y']
        kinds = {'N': 'N', 'B': 'B', 'S': 'S'}
        from itertools import permutations

        for text in generic:
            for order in permutations(('N', 'B', 'S'), 3):
                r.count('evaluations')
                r.count('states')
                st, prop = impl.try_parse('prop', 'after s as A: no t { %s }' % text)
                if st != 'ok':
                    r.notes['rejected:' + st] += 1
                    continue
                for j, kd in enumerate(order):
                    sc = schemas.msg({'x': kd, 'y': kd, 'z': kd, 'w': kd, 'xs': schemas.arr(kd)})
                    tok = schemas.to_token(sc, 'M' + kd)
                    r.count('transitions')
                    try:
                        prop.type_check_references({'t': tok, 's': tok})
                    except Exception as e:  # noqa: BLE001
                        r.violation('schema check depends on an earlier check of the same property', {'schema': 'two-schemas', 'text': text, 'order': list(order)},
                                    f'«{text}» checked against schemas of kinds {order[:j + 1]}: the last one raised {type(e).__name__}: {str(e)[:140]}', size=len(text) + j)
                        break
                r.count('validated')
        # typed predicates: the schema of the right kind must be accepted and the others rejected, whatever
        # was checked before on the same parsed property (exactness along a history of 3 checks)
        typed = {'N': ['x > 0', 'abs(x) + y < z', 'xs[0] > w', 'x in [0 to y]'], 'B': ['not x', 'x and (y or z)', 'xs[0] implies w'], 'S': ['x = "a"', 'y in {"a", "b"} or x = "c"']}
        for want, texts in typed.items():
            for text in texts:
                for order in permutations(('N', 'B', 'S'), 3):
                    r.count('evaluations')
                    r.count('states')
                    st, prop = impl.try_parse('prop', 'after s as A: no t { %s }' % text)
                    if st != 'ok':
                        r.notes['rejected:' + st] += 1
                        continue
                    for j, kd in enumerate(order):
                        sc = schemas.msg({'x': kd, 'y': kd, 'z': kd, 'w': kd, 'xs': schemas.arr(kd)})
                        tok = schemas.to_token(sc, 'M' + kd)
                        r.count('transitions')
                        try:
                            prop.type_check_references({'t': tok, 's': tok})
                            ok = True
                        except Exception as e:  # noqa: BLE001
                            ok = False
                            err = f'{type(e).__name__}: {str(e)[:100]}'
                        if ok != (kd == want):
                            r.violation('schema check depends on an earlier check of the same property', {'schema': 'two-schemas', 'text': text, 'order': list(order)},
                                        f'«{text}» (fields must be {want}) checked against schemas of kinds {order[:j + 1]}: the last check {"passed" if ok else "failed: " + err}', size=len(text) + j)
                            break
                    r.count('validated')
        r.sample({'two_schemas': generic[0]})
        return r
    if sname in ('matrix', 'scopes'):
        from hplmc import sigmatrix

        schemas.FAMILY.setdefault('matrix', sigmatrix.MATRIX_SCHEMA)
        for i, (desc, t) in enumerate(sigmatrix.valid_cases() if sname == 'matrix' else scope_cases()):
            if i % shards != k:
                continue
            r.count('evaluations')
            r.count('states')
            seen = set()
            for kind, detail in check_term(t, 'matrix', r, force_alias=(sname == 'matrix')):
                if kind in seen:
                    continue
                seen.add(kind)
                r.violation(f'{kind} [{desc}]', {'schema': 'matrix', 'term': t, 'text': absyn.expr_text(t)}, detail, size=absyn.size(t))
            r.count('validated')
        r.sample({'matrix_case': absyn.expr_text(t)})
        return r
    g = grammar_for(sname)
    for i, t in enumerate(g.stream('B', n)):
        if i % shards != k:
            continue
        r.count('evaluations')
        r.count('states')
        probs = check_term(t, sname, r)
        r.count('validated')
        seen = set()
        for kind, detail in probs:
            if kind in seen:
                continue
            seen.add(kind)
            r.violation(kind, {'schema': sname, 'term': t, 'text': absyn.expr_text(t)}, detail, size=absyn.size(t))
        if i % 2003 == 0:
            r.sample({'schema': sname, 'predicate': absyn.expr_text(t)})
    return r


def replay(w):
    from hplmc.checks.c08 import _detuple

    if w.get('schema') == 'two-schemas':
        return [{'sig': v['sig'], 'detail': v['detail']} for v in run(('quick', 'two-schemas', 0, 0, 1)).violations]
    return [{'sig': k, 'detail': d} for k, d in check_term(_detuple(w['term']), w['schema'])]


def describe(tier):
    b = bounds(tier)
    return {
        'rule': f"schemas and node bounds {b['schema_nodes']} (flat primitives; variable/fixed arrays of each primitive; nested messages three levels; array of messages with constants; fixed arrays of length 0/1/3 and arrays of arrays; four-level nesting) x every Bool term up to the schema's node bound generated type-directedly from the schema's valid paths (rooted at the message and at alias A), literals, + * ** = != < and implies not unary-minus abs len sum max bool int, sets, ranges, indexing, inclusion, both quantifiers (variables typed by their domain); each wrapped into 3-5 property positions; plus a schema whose field names begin with keywords (ERROR, INFO, PIN, notes, inner, ...); plus 7 type-generic predicates each parsed once and checked against number / boolean / string schemas in all 6 orders (histories of length 3); plus the signature matrix (every operator and every built-in function with every valid argument shape, used at its declared result type); parse, per-reference declared-type containment, and HplProperty.type_check_references against the real type tokens. Each predicate is placed in 6 event positions when it mentions no alias (behaviour, own alias, terminator under response / prevention, activator under requirement, member of a disjunctive behaviour) and in 11 when it does (alias from the activator or from a disjunctive trigger, also from the middle or the last of three alternatives that each bind an alias; used in behaviours, triggers, terminators and inside disjunctions). Plus sibling quantifiers (8 x 8 quantified sentences over number / boolean / string domains x 4 pairs of variable names, equal and different, also equal to field names x 3 connectives, and a nested quantifier whose name the sibling reuses) under the matrix schema. A state = one (schema, predicate); transitions = parser / schema-check calls.",
        'bounds': b,
        'exhaustive': True,
        'assumptions': ['type-directed generation by sort is the reference notion of well-typed'],
    }
