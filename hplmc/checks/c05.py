"""C05 - definite type errors are always rejected.

Universe: for every well-typed term of the C04 universe (two schemas), every
argument position (operand, function argument, range bound, set element,
quantifier domain / body, index, predicate root) x every filler of a fixed menu
whose own type is disjoint from the parameter type: exactly one injected clash
per text.  Plus reference reuse: one reference used at two disjoint types
inside one predicate.  Oracle: by construction + confirmed by the reference
definite-clash analysis: the parsers must raise TypeError.
"""

from __future__ import annotations

from hplmc import absyn, impl, schemas
from hplmc.checks import c04
from hplmc.core import Result
from hplmc.ref import types as T
from hplmc.universe import TRUE, num, this_field

ID = 'C05'
tf = this_field
NSHARD = 48

FILLERS = [
    TRUE,
    ('bin', 'and', tf('p'), tf('q')),
    ('bin', '<', tf('x'), num(1)),
    ('un', 'not', tf('p')),
    ('quant', 'exists', 'k', ('set', (num(1),)), ('bin', '>', ('var', 'k'), num(0))),
    num(1),
    ('lit', '2.5', 2.5),
    ('bin', '+', tf('x'), num(1)),
    ('un', '-', tf('x')),
    ('call', 'abs', (tf('x'),)),
    ('call', 'len', (('set', (num(1),)),)),
    ('lit', '"a"', '"a"'),
    ('call', 'str', (num(1),)),
    ('set', (num(1), num(2))),
    ('range', num(0), num(1), False, False),
]


def bounds(tier):
    return {'nodes': 4 if tier == 'quick' else 5, 'schemas': ('flat', 'arrays')}


def plan(tier):
    b = bounds(tier)
    units = []
    for sname in b['schemas']:
        for n in range(1, b['nodes'] + 1):
            sh = 1 if n <= 3 else NSHARD
            units += [(tier, sname, n, k, sh) for k in range(sh)]
    units.append((tier, 'roots', 0, 0, 1))
    units += [(tier, 'matrix', 0, k, 16) for k in range(16)]
    units.append((tier, 'boundvars', 0, 0, 1))
    units.append((tier, 'ownalias', 0, 0, 1))
    return units


def expect_type_error(kind, text, what, r, problems):
    r.count('transitions')
    st, res = impl.try_parse(kind, text)
    r.outcomes[f'{kind}:{st}'] += 1
    if st == 'type':
        return
    if st == 'ok':
        problems.append((f'definite type error accepted ({what})', f'«{text}» [{kind}] parsed into an AST'))
    else:
        problems.append((f'definite type error raises {st} instead of TypeError ({what})', f'«{text}» [{kind}]: {str(res)[:160]}'))


def injections(t):
    """(injected tree, description) with exactly one definite clash."""
    out = []
    for path, child, param, desc in T.argument_positions(t):
        if desc in ('accessed object', 'indexed object'):
            continue  # only references are expressible there: covered by the reuse variants
        for f in FILLERS:
            if T.definite(f) & param:
                continue
            if f == child:
                continue
            t2 = T.replace_at(t, path, f)
            out.append((t2, desc))
    # = / != applied to a literal or operator result of another sort than the (definite) other side
    for path, child, sib in T.eq_sibling_positions(t):
        for f in FILLERS:
            d = T.definite(f)
            if len(d) != 1 or not (d <= T.PRIMITIVE) or (d & sib) or f == child:
                continue
            out.append((T.replace_at(t, path, f), f'operand of =/!= whose other side is {sorted(sib)[0]}'))
    return out


def expect_type_error_api(tree, what, r, problems):
    """The same term built bottom-up with the constructors (no parser, which pre-casts operands itself) and
    wrapped into a predicate: some constructor on the way must raise TypeError."""
    r.count('transitions')
    try:
        absyn.build(('pred', tree))
        st = 'ok'
    except Exception as e:  # noqa: BLE001
        st = impl.outcome_class(e)
        res = e
    r.outcomes[f'api:{st}'] += 1
    text = absyn.expr_text(tree, 'full')
    if st == 'ok':
        problems.append((f'definite type error accepted by the constructors ({what})', f'«{text}» built through the API gives a predicate'))
    elif st != 'type':
        problems.append((f'definite type error raises {st} instead of TypeError in the constructors ({what})', f'«{text}» [API]: {str(res)[:160]}'))


def reuse_variants(t):
    """Conjoin an atom that requires one of t's references at a type disjoint from
    the type its position in t requires (both requirements are definite: they
    come from parameter types, not from = unification)."""
    out = []
    seen = set()
    uses = {
        'NUMBER': lambda r: ('bin', '>', r, num(0)),
        'BOOL': lambda r: ('un', 'not', r),
        'ARRAY': lambda r: ('bin', '>', ('index', r, num(0)), num(0)),
        'MESSAGE': lambda r: ('bin', '>', ('field', r, 'zz'), num(0)),
    }
    for path, child, param, desc in T.argument_positions(t):
        if child[0] not in ('field', 'index'):
            continue
        if child[0] == 'field' and child[1][0] == 'var' and child[1][1] not in ('A',):
            continue  # rooted in a quantified variable: conjoining outside its scope would change the reference
        if _mentions_bound(child):
            continue
        req = param & T.ACCESS
        if not req or len(req) > 1:
            continue  # weak requirement (=, set element, ...): not a definite one
        k = (absyn.canon(child), tuple(sorted(req)))
        if k in seen:
            continue
        seen.add(k)
        for name, mk in uses.items():
            if name in req:
                continue
            u = mk(child)
            out.append((('bin', 'and', t, u), f'reference required as {sorted(req)[0]} reused as {name}'))
            out.append((('bin', 'and', u, t), f'reference required as {sorted(req)[0]} reused as {name}'))
            # a third, loosely typed occurrence between the two clashing ones
            weak = ('bin', '=', child, tf('zz'))
            weak2 = ('bin', 'in', child, ('set', (tf('zz'),)))
            for w in (weak, weak2):
                out.append((('bin', 'and', ('bin', 'and', t, w), u), f'reference required as {sorted(req)[0]} reused as {name} with a loosely typed occurrence in between'))
                out.append((('bin', 'and', u, ('bin', 'and', w, t)), f'reference required as {sorted(req)[0]} reused as {name} with a loosely typed occurrence in between'))
    return out


def _mentions_bound(node):
    for u in absyn.subterms(node):
        if u[0] == 'var' and u[1] != 'A':
            return True
    return False


def texts_for(tree):
    try:
        text = absyn.expr_text(tree)
    except ValueError:
        return None  # filler not expressible in an atomic position
    return text


def check_term(t, r):
    problems = []
    for t2, desc in injections(t):
        text = texts_for(t2)
        if text is None:
            r.notes['injection not expressible in the grammar'] += 1
            continue
        if not T.definite_clashes(t2) and not T.eq_clashes(t2):
            problems.append(('HARNESS-ERROR injected clash not confirmed by the reference analysis', f'{text}'))
            continue
        r.count('evaluations')
        r.count('states')
        expect_type_error('expr', text, desc, r, problems)
        expect_type_error('pred', '{ ' + text + ' }', desc, r, problems)
        expect_type_error('prop', 'after s as A: no t { ' + text + ' }', desc, r, problems)
        expect_type_error_api(t2, desc, r, problems)
    for t2, desc in reuse_variants(t):
        text = texts_for(t2)
        if text is None:
            continue
        r.count('evaluations')
        r.count('states')
        expect_type_error('pred', '{ ' + text + ' }', desc, r, problems)
        expect_type_error('cond', text, desc, r, problems)
        expect_type_error('prop', 'after s as A: no t { ' + text + ' }', desc, r, problems)
        expect_type_error_api(t2, desc, r, problems)
    return problems


def run(unit):
    tier, sname, n, k, shards = unit
    r = Result()
    if sname == 'roots':
        problems = []
        for f in FILLERS:
            if T.definite(f) & T.B:
                continue
            text = absyn.expr_text(f)
            r.count('evaluations')
            r.count('states')
            expect_type_error('pred', '{ ' + text + ' }', 'predicate root', r, problems)
            expect_type_error('cond', text, 'predicate root', r, problems)
            expect_type_error('prop', 'globally: some t { ' + text + ' }', 'predicate root', r, problems)
        for kind, detail in problems:
            r.violation(kind, {'text': detail}, detail, size=1)
        r.count('validated', r.counters['evaluations'])
        return r
    if sname == 'boundvars':
        # the bound variable of a quantifier over a set / range literal used at a type disjoint from the
        # element type - alone, and after a loosely typed first occurrence (both orders)
        doms = [('{1, 2}', 'N'), ('[0 to 3]', 'N'), ('![0 to x]!', 'N'), ('{"a"}', 'S'), ('{True}', 'B'), ('{x + 1}', 'N')]
        clash = {'N': ['not @i', '@i and p', '@i = "a"', 'len(@i) > 0'], 'S': ['@i > 0', 'not @i', '@i + 1 = y'], 'B': ['@i > 0', '@i = "a"', 'abs(@i) > 0']}
        weak = ['@i = @v', '@i in {@v}', '@v != @i', 'bool(@i)']
        problems = []
        for dtext, kind in doms:
            for q in ('forall', 'exists'):
                for c in clash[kind]:
                    bodies = [c] + [f'({w} and {c})' for w in weak] + [f'({c} and {w})' for w in weak] + [f'({w} and ({w2} and {c}))' for w in weak[:2] for w2 in weak[2:]]
                    for body in bodies:
                        text = f'{q} i in {dtext}: {body}'
                        r.count('evaluations')
                        r.count('states')
                        expect_type_error('expr', text, 'bound variable used outside the element type of its domain', r, problems)
                        expect_type_error('pred', '{ ' + text + ' }', 'bound variable used outside the element type of its domain', r, problems)
                        expect_type_error('prop', 'globally: no t { ' + text + ' }', 'bound variable used outside the element type of its domain', r, problems)
        # a variable bound over an ARRAY (element type open) used at two disjoint types, the occurrences spread over
        # the scopes of nested quantifiers (inner body, inner domain, index) and sibling conjuncts
        uses = {'N': ['@i > 0', 'xs[@i] > 0', 'x in [0 to @i]', 'abs(@i) > 0'], 'B': ['not @i', '@i and p'], 'S': ['@i = "a"']}
        for k1 in uses:
            for k2 in uses:
                if k1 == k2:
                    continue
                for u1 in uses[k1]:
                    for u2 in uses[k2][:2]:
                        for text in (f'forall i in ys: ({u1} and exists j in zs: (@j > 0 and {u2}))', f'forall i in ys: ((exists j in zs: (@j > 0 and {u2})) and {u1})',
                                     f'exists i in ys: (forall j in zs: ({u2} or @j > 0) and {u1})', f'forall i in ys: ({u1} and forall j in zs: (exists k in ws: (@k > @j and {u2})))',
                                     f'forall i in ys: (forall j in [0 to len(zs)]: ({u1} and @j > 0) and {u2})'):
                            r.count('evaluations')
                            r.count('states')
                            expect_type_error('pred', '{ ' + text + ' }', 'bound variable used at two disjoint types across nested quantifiers', r, problems)
                            expect_type_error('prop', 'globally: no t { ' + text + ' }', 'bound variable used at two disjoint types across nested quantifiers', r, problems)
        seen = set()
        for kind_, detail in problems:
            if kind_ in seen:
                continue
            seen.add(kind_)
            r.violation(kind_, {'boundvars': True, 'text': detail}, detail, size=len(detail))
        r.count('validated', r.counters['evaluations'])
        r.sample({'bound_variable_case': 'forall i in {1, 2}: (@i = @v and @i = "a")'})
        return r
    if sname == 'ownalias':
        # the same field required at two disjoint types, one occurrence written through the event's own
        # alias (in every slot kind), and the same computed-index element used at two types
        problems = []
        pairs = [
            ('@M.x > 0', 'not x'), ('not @M.p', 'p > 0'), ('xs[@M.i] > 0', 'not i'), ('xs[@M.i + 1] > 0', 'i and p'), ('x in [0 to @M.k]', 'not k'),
            ('y in {@M.k, 1}', 'len(k) > 0'), ('abs(@M.v) > 0', 'not v'), ('forall j in @M.zs: @j > 0', 'zs > 0'), ('@M.m.f > 0', 'not m.f'), ('@M.q[0] > 0', 'q.f > 0'),
        ]
        for a, b_ in pairs:
            for cond in (f'{a} and {b_}', f'{b_} and {a}', f'({a} and y = y) and {b_}'):
                for tmpl in ('globally: no t as M { %s }', 'after s: (u or t as M { %s }) causes w', 'until t as M { %s }: some w'):
                    text = tmpl % cond
                    r.count('evaluations')
                    r.count('states')
                    expect_type_error('prop', text, 'field required at two disjoint types, once through the own alias', r, problems)
        # the own alias as a whole message where the position requires something else (the parser substitutes the
        # message for the alias after the predicate was built, so the rebuilt nodes must be checked again)
        whole = ['x in {@M, 1}', 'x in {@M}', 'x in {1, @M.x, @M}', 'x in [0 to @M]', 'x in ![@M to 3]', '@M > 0', 'not @M', 'xs[@M] > 0', 'abs(@M) > 0', 'forall i in @M: @i > 0', 'exists i in {@M}: @i > 0',
                 '@M = 1', 'len(@M) > 0', '@M.xs[@M] > 0', '@M + 1 > 0', '-@M < 0', 'x = @M', 'p implies @M', 'sum({@M, 2}) > 0', 'max({@M.x, @M}) > 0', 'forall i in xs: @i > @M', 'forall i in [0 to @M]: @i > 0']
        for cond in whole:
            for tmpl in ('globally: no t as M { %s }', 'after s: (u or t as M { %s }) causes w', 'until t as M { %s }: some w', 'after s as A: t as M { @A.k > 0 and %s } forbids w'):
                r.count('evaluations')
                r.count('states')
                expect_type_error('prop', tmpl % cond, 'own alias used as a whole message where another type is required', r, problems)
        computed = ['xs[x + 1]', 'xs[-1]', 'xs[abs(x)]', 'ms[len(xs) - 1].f', 'xs[xs[0]]', '@A.xs[x * 2]']
        for ref in computed:
            for use1, use2 in (('%s > 0', 'not %s'), ('not %s', '%s + 1 > 0'), ('%s in {1}', '%s.f > 0')):
                for cond in (f'{use1 % ref} and {use2 % ref}', f'{use2 % ref} and ({use1 % ref} and y = y)'):
                    r.count('evaluations')
                    r.count('states')
                    expect_type_error('pred', '{ ' + cond + ' }', 'computed-index element required at two disjoint types', r, problems)
                    expect_type_error('prop', 'after s as A: no t { ' + cond + ' }', 'computed-index element required at two disjoint types', r, problems)
        seen = set()
        for kind_, detail in problems:
            if kind_ in seen:
                continue
            seen.add(kind_)
            r.violation(kind_, {'ownalias': True, 'text': detail}, detail, size=len(detail))
        r.count('validated', r.counters['evaluations'])
        r.sample({'own_alias_case': 'globally: no t as M { xs[@M.i + 1] > 0 and i and p }'})
        return r
    if sname == 'matrix':
        from hplmc import sigmatrix

        for i, (desc, t) in enumerate(sigmatrix.invalid_cases()):
            if i % shards != k:
                continue
            problems = []
            text = texts_for(t)
            if text is None:
                continue
            if not T.definite_clashes(t) and not T.eq_clashes(t):
                r.violation('HARNESS-ERROR matrix case not confirmed by the reference analysis', {'text': text}, text)
                continue
            r.count('evaluations')
            r.count('states')
            expect_type_error('expr', text, desc, r, problems)
            expect_type_error('pred', '{ ' + text + ' }', desc, r, problems)
            expect_type_error('prop', 'after s as A: no t { ' + text + ' }', desc, r, problems)
            for kind, detail in problems:
                r.violation(kind, {'matrix': True, 'text': text}, detail, size=len(text))
        r.count('validated', r.counters['evaluations'])
        r.sample({'matrix_case': text})
        return r
    g = c04.grammar_for(sname)
    for i, t in enumerate(g.stream('B', n)):
        if i % shards != k:
            continue
        # only base terms that the parser accepts as they are
        st, _ = impl.try_parse('pred', '{ ' + absyn.expr_text(t) + ' }')
        if st != 'ok':
            r.notes['base term not accepted:' + st] += 1
            continue
        probs = check_term(t, r)
        seen = set()
        for kind, detail in probs:
            if kind in seen:
                continue
            seen.add(kind)
            r.violation(kind, {'schema': sname, 'term': t, 'text': absyn.expr_text(t)}, detail, size=absyn.size(t))
        if i % 1501 == 0:
            r.sample({'base': absyn.expr_text(t)})
    r.count('validated', r.counters['evaluations'])
    return r


def replay(w):
    from hplmc.checks.c08 import _detuple

    r = Result()
    if w.get('ownalias'):
        return [{'sig': v['sig'], 'detail': v['detail']} for v in run(('quick', 'ownalias', 0, 0, 1)).violations]
    if w.get('boundvars'):
        return [{'sig': v['sig'], 'detail': v['detail']} for v in run(('quick', 'boundvars', 0, 0, 1)).violations]
    if w.get('matrix'):
        problems = []
        for k_ in ('expr',):
            expect_type_error(k_, w['text'], 'matrix', r, problems)
        return [{'sig': k, 'detail': d} for k, d in problems]
    if 'term' not in w:
        return [{'sig': v['sig'], 'detail': v['detail']} for v in run(('quick', 'roots', 0, 0, 1)).violations]
    return [{'sig': k, 'detail': d} for k, d in check_term(_detuple(w['term']), r)]


def describe(tier):
    b = bounds(tier)
    return {
        'rule': f"base: every accepted Bool term with <= {b['nodes']} nodes of the C04 universe for schemas {list(b['schemas'])}; for every argument position (operands of all operators, function arguments, range bounds, set elements, quantifier domains and bodies, indices) every filler of a 15-term menu (literals of each primitive sort, operator / function / quantifier results of each sort, a set, a range) whose own type is disjoint from the parameter type is injected - one clash per text, confirmed by the reference definite-clash analysis - and parsed as expression, predicate and property; plus reuse of each reference at a disjoint type (both conjunct orders) through the predicate, condition and property parsers; plus non-boolean roots; plus 10 field pairs required at two disjoint types with one occurrence written through the event's own alias (in every slot kind, 3 orders, 3 event positions) and 6 computed-index elements used at two types; plus quantifiers over set / range literals whose bound variable is used at a type disjoint from the element type, alone and after 1-2 loosely typed occurrences (6 domains x 2 quantifiers x 3-4 clashing uses x 13 bodies); plus the signature matrix: every unary / binary operator and every built-in function with every wrong-sorted non-reference operand / argument (3 shapes per sort), every misuse of its result at a disjoint type, and one-argument calls of the two-argument functions. Plus 22 uses of the event's own alias as a whole message where another type is required x 4 event positions. Plus a variable bound over an array used at two disjoint types with the occurrences spread over nested quantifiers (7 uses x 5 nesting shapes). evaluations = injected texts; every one must raise TypeError.",
        'bounds': {'nodes': b['nodes']},
        'exhaustive': True,
        'assumptions': ['= / != clashes are generated only between two operands that each certainly have one base type (literal or operator/function result); transitive clashes through references and heterogeneous sets are not claimed and not generated'],
    }
