"""C06 - printing a parsed AST and parsing it again gives the same AST.

Universe: every AST the parser returns on (a) all terms up to the node bound of
a grammar covering every expression node kind, (b) the operator-pair matrix (every nesting of every pair of binary operators) and one-argument calls of all 27
built-in functions on every argument shape the type checker accepts, (c) the
property skeleton universe (all scopes / patterns, disjunction widths 1..4,
aliases, predicates), (d) specifications of 1-3 properties, (e) a grid of time
bounds k * 10^d in both units.  Oracle: re-parse equality, hash equality,
printing fixed point, and a global injectivity map (printed text -> typed tree).
"""

from __future__ import annotations

import hashlib

from hplmc import absyn, impl, props
from hplmc.core import Result, chunks
from hplmc.universe import FALSE, TRUE, Grammar, alias_field, num, this_field

ID = 'C06'
tf = this_field
NSHARD = 48

FUNCTIONS = ('abs bool int float str len sum prod sqrt ceil floor log sin cos tan asin acos atan atan2 deg rad max min gcd roll pitch yaw').split()


def bounds(tier):
    if tier == 'quick':
        return {'nodes': 4, 'max_width': 3, 'time_k': 999, 'time_exp': (-4, 4)}
    return {'nodes': 5, 'max_width': 4, 'time_k': 9999, 'time_exp': (-6, 6)}


def grammar():
    atoms = {
        'N': [tf('x'), tf('_n'), alias_field('A', 'x'), ('field', tf('m'), 'f'), num(0), num(1), ('lit', '2.5', 2.5), ('lit', '1e3', 1000.0), ('lit', 'PI', absyn.CONSTANTS['PI']), ('lit', 'INF', float('inf')), ('lit', 'NAN', float('nan')), ('lit', 'E', absyn.CONSTANTS['E'])],
        'B': [tf('p'), tf('_ready'), TRUE, FALSE],
        'S': [tf('s'), ('lit', '"a"', '"a"'), ('lit', '""', '""')],
        'A': [tf('xs')],
    }
    return Grammar(
        atoms,
        funcs={'abs': ('N', 'N'), 'len': ('A', 'N'), 'sum': ('SET', 'N'), 'max': ('R', 'N')},
        quants=('forall', 'exists'), domains=('A', 'SET', 'R'),
        set_widths=(1, 2), range_flags=((False, False), (True, True), (True, False), (False, True)),
        inclusion=('A', 'SET', 'R'), index=True, eq_sorts=('N', 'B', 'S'),
    )


def function_family():
    x, p, s = tf('x'), tf('p'), tf('s')
    args = [
        num(1), ('lit', '"a"', '"a"'), TRUE, x, p, s, alias_field('A', 'x'), tf('m'), ('var', 'v'),
        ('set', (num(1), num(2))), ('set', (x, num(2))), ('set', (num(1),)),
        ('range', num(0), num(3), False, False), ('range', num(3), num(1), True, True), ('range', x, num(3), False, True),
        tf('xs'), ('un', '-', x), ('bin', '+', x, num(1)),
    ]
    out = []
    for f in FUNCTIONS:
        for a in args:
            c = ('call', f, (a,))
            out.append(c)
            out.append(('bin', '<', c, num(1)))
            out.append(('bin', '=', c, tf('y')))
            out.append(('bin', '+', c, c))
    return out


def plan(tier):
    b = bounds(tier)
    units = []
    for sort in ('B', 'N', 'S'):
        for n in range(1, b['nodes'] + 1):
            sh = 1 if n <= 3 else NSHARD
            units += [('terms', sort, n, k, sh) for k in range(sh)]
    units.append(('functions',))
    sk = list(props.width_skeletons(b['max_width']))
    units += [('props', tier, c) for c in chunks(sk, 32)]
    units.append(('specs', tier))
    lo, hi = b['time_exp']
    for d in range(lo, hi + 1):
        for unit in ('s', 'ms'):
            units.append(('time', d, unit, b['time_k']))
    return units


def _h(x):
    return hashlib.blake2b(repr(x).encode(), digest_size=10).hexdigest()


def roundtrip(kind, ast, label, r):
    """All C06 obligations on one parsed AST.  Returns problems."""
    problems = []
    r.count('transitions')
    try:
        s = str(ast)
    except Exception as e:  # noqa: BLE001
        return [(f'str() raised {type(e).__name__}', f'{label}: {e}')]
    st, back = impl.try_parse(kind, s)
    if st != 'ok':
        return [(f'printed text does not parse ({st})', f'{label} printed as «{s}»: {str(back)[:200]}')]
    lt = absyn.canon(absyn.lift(ast, typed=True))
    lb = absyn.canon(absyn.lift(back, typed=True))
    try:
        eq = back == ast
        same_hash = hash(back) == hash(ast)
    except Exception as e:  # noqa: BLE001
        return [(f'== or hash raised {type(e).__name__}', f'{label}: {e}')]
    if lt != lb:
        problems.append(('re-parsed AST differs from the original', f'{label} printed as «{s}» re-parses to a different tree'))
    elif not eq:
        problems.append(('re-parsed AST has the same structure but is not == to the original', f'{label} printed as «{s}»'))
    elif not same_hash:
        problems.append(('re-parsed AST is equal but hashes differently', f'{label} printed as «{s}»'))
    try:
        s2 = str(back)
    except Exception as e:  # noqa: BLE001
        s2 = f'<{type(e).__name__}>'
    if s2 != s:
        problems.append(('printing is not a fixed point', f'{label}: «{s}» then «{s2}»'))
    if kind in ('prop', 'pred'):
        problems += print_order_independent(kind, label, s, label, r)
    r.keys.add((kind, _h(s), _h(lt)))
    r.outcomes['ok' if not problems else 'problem'] += 1
    return problems


def _parts(obj, out, seen):
    """Every AST object below obj (attrs fields, tuples), children before parents."""
    import attr

    if id(obj) in seen:
        return
    seen.add(id(obj))
    if isinstance(obj, (tuple, list)):
        for x in obj:
            _parts(x, out, seen)
        return
    if not attr.has(type(obj)) or not type(obj).__module__.startswith('hpl.'):
        return
    for f in attr.fields(type(obj)):
        if f.name != 'metadata':
            _parts(getattr(obj, f.name, None), out, seen)
    out.append(obj)


def print_order_independent(kind, text, s, label, r):
    """Printing is a function of the tree: a twin whose parts were all printed first (children before parents), then
    the twin itself, prints like the original did; and each part prints the same before and after the whole did."""
    st, twin = impl.try_parse(kind, text)
    if st != 'ok':
        return []
    parts = []
    _parts(twin, parts, set())
    r.count('transitions', len(parts) + 1)
    try:
        before = [str(x) for x in parts]
        whole = str(twin)
        after = [str(x) for x in parts]
    except Exception as e:  # noqa: BLE001
        return [(f'str() raised {type(e).__name__} on a part', f'{label}: {e}')]
    if whole != s:
        return [('printing depends on what was printed before', f'{label}: «{s}» when printed first, «{whole}» after its {len(parts) - 1} parts were printed')]
    for x, a, b_ in zip(parts, before, after):
        if a != b_:
            return [('printing depends on what was printed before', f'{label}: the {type(x).__name__} «{a}» prints as «{b_}» after the whole was printed')]
    return []


def refs_printed_uniquely(ast, label):
    """The printed form of a reference identifies it uniquely (it is the key of
    the reference table): two references of one predicate with the same str()
    must be the same reference."""
    from hplmc.ref import walk as W

    seen = {}
    for o in W.preorder(ast):
        n = W.cname(o)
        if n in ('HplFieldAccess', 'HplArrayAccess', 'HplVarReference'):
            key = str(o)
            t = absyn.canon(absyn.lift(o))
            if key in seen and seen[key] != t:
                return [('two different references print the same', f'{label}: «{key}»')]
            seen[key] = t
    return []


def run(unit):
    r = Result()
    kind = unit[0]
    if kind == 'terms':
        _, sort, n, k, shards = unit
        g = grammar()
        for i, t in enumerate(g.stream(sort, n)):
            if i % shards != k:
                continue
            _term(t, sort, r, i)
    elif kind == 'functions':
        from hplmc.ref import types as T
        from hplmc.universe import operator_pair_matrix

        for i, t in enumerate(function_family()):
            _term(t, 'B' if t[0] == 'bin' and t[1] in ('<', '=') else 'X', r, i)
        for i, t in enumerate(operator_pair_matrix()):
            _term(t, 'B' if T.definite(t) == T.B else 'X', r, i)
    elif kind == 'props':
        from hplmc.checks import c11

        _, tier, skels = unit
        for sk, pk, widths in skels:
            for deco in c11.DECOS:
                evs = c11.decorate(sk, pk, widths, deco)
                if evs is None:
                    continue
                p = props.make_property(
                    sk, pk,
                    act=props.disj(evs['act']) if 'act' in evs else None, term=props.disj(evs['term']) if 'term' in evs else None,
                    trig=props.disj(evs['trig']) if 'trig' in evs else None, beh=props.disj(evs['beh']),
                )
                for timetxt in (None, ('100', 'ms'), ('5', 's'), ('0.5', 's')):
                    text = absyn.property_text(p, time=timetxt)
                    r.count('evaluations')
                    st, obj = impl.try_parse('prop', text)
                    if st != 'ok':
                        r.notes['rejected:' + st] += 1
                        continue
                    r.count('states')
                    for pk_, detail in roundtrip('prop', obj, text, r):
                        r.violation(f'{pk_} [property]', {'kind': 'prop', 'text': text}, detail, size=len(text))
                    r.count('validated')
        r.sample({'property': text})
    elif kind == 'specs':
        # events with explicitly written vacuous predicates (and near misses)
        for ev_text in ('a { False }', 'a { True }', 'a as A { False }', '(a { False } or b { True })', 'a { not True }', 'a { True and True }', 'a { False or p }'):
            for tmpl in ('globally: no %s', 'after %s: some z', 'until %s: z causes w within 1 s', 'globally: %s forbids z'):
                text = tmpl % ev_text
                r.count('evaluations')
                st, obj = impl.try_parse('prop', text)
                if st != 'ok':
                    r.notes['rejected:' + st] += 1
                    continue
                r.count('states')
                for pk_, detail in roundtrip('prop', obj, text, r):
                    r.violation(f'{pk_} [property with a vacuous predicate]', {'kind': 'prop', 'text': text}, detail, size=len(text))
        # time bounds with many significant digits, in both units
        for num_text in ('0.1234567', '1000001', '86400.25', '3600.001', '3600.002', '12345678.9', '0.000123456789', '1.0000001', '999999.9999', '31536000', '1e-7', '123456789e-12', '0.30000000000000004'):
            for u in ('s', 'ms'):
                text = f'globally: no a within {num_text} {u}'
                r.count('evaluations')
                st, obj = impl.try_parse('prop', text)
                if st != 'ok':
                    r.notes['rejected:' + st] += 1
                    continue
                r.count('states')
                for pk_, detail in roundtrip('prop', obj, text, r):
                    r.violation(f'{pk_} [time bound]', {'kind': 'prop', 'text': text}, detail, size=len(num_text) + 1000)
        # an event that uses its own alias: as the whole message, in indices, ranges, nested accessors
        own = ['roll(@M) > 0', 'yaw(@M) > @M.x', 'xs[@M.i] > @M.xs[0]', 'x in ![0 to @M.lim]', 'forall i in @M.xs: @i > @M.k', 'pitch(@M) < abs(@M.m.f) and not @M.p']
        # the whole message as a value at every depth: below indices, field accesses after an index, range bounds,
        # set members, function arguments, quantifier domains and bodies
        contexts = ['%s > 0', 'xs[%s] > 0', 'xs[%s].y > 0', 'm.f[%s].g > 0', 'ms[%s].ys[%s] > 0', '@M.xs[%s].y > 0', 'ms[xs[%s]].y > 0', 'x in [0 to %s]', 'x in {%s, 1}', 'abs(%s) > x',
                    'forall i in xs: @i > %s', 'forall i in [0 to %s]: @i > 0', 'forall i in ms[%s].ys: @i > 0', 'not (%s > 0)', 'ms[%s].y > 0 and @M.x > 0', 'ms[abs(%s)].y > ms[0].y', 'ms[%s + 1].y > 0']
        for w in ('roll(@M)', 'yaw(@M)'):
            own += [c.replace('%s', w) for c in contexts]
        for pred in own:
            for tmpl in ('globally: no a as M { %s }', 'after a as M { %s }: some z', 'globally: (a as M { %s } or b) causes z'):
                text = tmpl % pred
                r.count('evaluations')
                st, obj = impl.try_parse('prop', text)
                if st != 'ok':
                    r.notes['rejected:' + st] += 1
                    continue
                r.count('states')
                for pk_, detail in roundtrip('prop', obj, text, r):
                    r.violation(f'{pk_} [property with the whole message as a value]' if 'roll' in pred or 'yaw' in pred or 'pitch' in pred else f'{pk_} [own alias]', {'kind': 'prop', 'text': text}, detail, size=len(text))
        pool = [
            'globally: no a', 'after s as S: some b {x = @S.x} within 2 s', 'until (e or e2): (g or h) causes b', 'after s until e: b requires g within 100 ms',
            '# id: q\nglobally: g forbids (b or c or d)', 'globally: some b {forall i in xs: @i > 0}',
        ]
        from itertools import product

        for n in (1, 2, 3):
            for combo in product(pool, repeat=n):
                text = '\n'.join(combo)
                r.count('evaluations')
                st, obj = impl.try_parse('spec', text)
                if st != 'ok':
                    r.notes['rejected:' + st] += 1
                    continue
                r.count('states')
                for pk_, detail in roundtrip('spec', obj, text.replace('\n', ' / '), r):
                    r.violation(f'{pk_} [specification]', {'kind': 'spec', 'text': text}, detail, size=len(text))
                r.count('validated')
        r.sample({'specification': text})
    else:
        _, d, u, kmax = unit
        for k in range(1, kmax + 1):
            num_text = f'{k}e{d}'
            text = f'globally: no a within {num_text} {u}'
            r.count('evaluations')
            st, obj = impl.try_parse('prop', text)
            if st != 'ok':
                r.notes['rejected:' + st] += 1
                continue
            r.count('states')
            for pk_, detail in roundtrip('prop', obj, text, r):
                r.violation(f'{pk_} [time bound]', {'kind': 'prop', 'text': text}, detail, size=len(num_text) + 100 * len(str(k)))
            r.count('validated')
        r.sample({'property': text})
    return r


def _term(t, sort, r, i):
    try:
        text = absyn.expr_text(t)
    except ValueError:
        return
    r.count('evaluations')
    st, e = impl.try_parse('expr', text)
    if st != 'ok':
        r.notes['rejected:' + st] += 1
        return
    r.count('states')
    probs = roundtrip('expr', e, text, r)
    if sort == 'B':
        st, p = impl.try_parse('pred', '{ ' + text + ' }')
        if st == 'ok':
            probs += roundtrip('pred', p, '{ ' + text + ' }', r)
            probs += refs_printed_uniquely(p, '{ ' + text + ' }')
    r.count('validated')
    seen = set()
    for kind, detail in probs:
        core = _core(t)
        sig = f'{kind} [{core}]'
        if sig in seen:
            continue
        seen.add(sig)
        r.violation(sig, {'kind': 'expr', 'text': text, 'sort': sort}, detail, size=absyn.size(t))
    if i % 1501 == 0:
        r.sample({'term': text})


def _core(t):
    """Coarse attribution of a printing failure: the node kinds involved."""
    kinds = set()
    for u in absyn.subterms(t):
        if u[0] == 'call':
            kinds.add('function call')
        elif u[0] == 'lit' and isinstance(u[2], float) and u[2] != u[2]:
            kinds.add('NAN')
    return ', '.join(sorted(kinds)) or t[0]


def post(tier, total):
    """Global injectivity: one printed text never stands for two different trees."""
    by = {}
    for kind, hs, ht in total.keys:
        by.setdefault((kind, hs), set()).add(ht)
    clashes = [k for k, v in by.items() if len(v) > 1]
    total.counters['distinct_printed_texts'] = len(by)
    for k in clashes[:5]:
        total.violation('two different ASTs print the same text', {'kind': k[0], 'text_hash': k[1]}, f'{len(by[k])} different trees share one printed text (kind {k[0]})')
    total.keys = set()


def replay(w):
    r = Result()
    st, obj = impl.try_parse(w['kind'], w['text'])
    if st != 'ok':
        return []
    out = [{'sig': k, 'detail': d} for k, d in roundtrip(w['kind'], obj, w['text'], r)]
    if w.get('sort') == 'B':
        st, p = impl.try_parse('pred', '{ ' + w['text'] + ' }')
        if st == 'ok':
            out += [{'sig': k, 'detail': d} for k, d in roundtrip('pred', p, w['text'], r)]
    return out


def describe(tier):
    b = bounds(tier)
    return {
        'rule': f"parsed ASTs of: all Bool/Num/Str terms with <= {b['nodes']} nodes (fields, alias fields, nested fields, int/float/exponent literals, constants PI INF, strings, all 16 binary and both unary operators, sets, 4 range forms, indexing, inclusion, both quantifiers, abs/len/sum/max) as expression and predicate; all 27 built-in functions x 18 argument shapes x 4 contexts; every property skeleton (4 scopes x 5 patterns x widths 1..{b['max_width']} per position) x 6 decorations x 4 time bounds; all sequences of 1..3 from 6 properties as specifications; time bounds k*10^d for k in 1..{b['time_k']}, d in {b['time_exp']}, units s and ms. Each: str, re-parse with the same entry point, ==, hash, second str; predicates and properties also through a twin whose parts (every node, children first) are printed before and after the whole - the texts must not depend on the order; The whole message (roll / yaw of the own alias) is placed in 17 contexts (below indices, field accesses after an index, range bounds, set members, function arguments, quantifier domains and bodies) x 3 event positions; plus a run-wide map printed text -> typed tree (injectivity).",
        'bounds': b,
        'exhaustive': True,
        'assumptions': ['equality of typed lifted trees is the reference notion of "same AST"'],
    }
