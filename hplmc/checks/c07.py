"""C07 - parsing never fails in undocumented ways and parsers are stateless.

U(a) all token sequences up to a length bound (full / core alphabets, 5 entry points)
U(b) all single (double) token edits of a valid corpus
U(c) all strings up to length 3 over 24 awkward characters; every single
     insertion of each of them at every position of the corpus texts
U(d) nesting (parentheses, not, unary minus, accessor chains, quantifiers, sets,
     disjunction width) up to depth 50
U(e) explicit-state exploration of call histories on ONE parser object per entry
     point: every sequence of <= 3 (4) calls over a 18/19-text pool; the outcome of
     the last call must equal the outcome on a fresh parser.
Oracle: each call terminates (watchdog) and returns an AST or raises exactly
HplSyntaxError / HplSanityError / TypeError / ValueError-for-unknown-function.
"""

from __future__ import annotations

from itertools import product

from hplmc import absyn, impl
from hplmc.checks import c01
from hplmc.core import Result, Watchdog

ID = 'C07'

BUILTINS = set('abs bool int float str len sum prod sqrt ceil floor log sin cos tan asin acos atan atan2 deg rad max min gcd roll pitch yaw'.split())

AWKWARD = ['\x00', '\r', '\n', '\t', '\xa0', ' ', '"', '\\', '#', '@', '{', '}', '!', '~', '/', 'é', '１', '́', '😀', "'", '`', '$', ';', '\x7f']

ALPHABET = c01.FULL_ALPHABET + ['foo', '0', '$']


def bounds(tier):
    if tier == 'quick':
        return {'seq_len_full': 2, 'seq_len_core': 3, 'double_edits': False, 'chars_len': 2, 'depth': 50, 'history_len': 3}
    return {'seq_len_full': 3, 'seq_len_core': 4, 'double_edits': True, 'chars_len': 3, 'depth': 50, 'history_len': 4}


def classify(kind, text, parser=None):
    """Outcome of one parser call: (class, comparable-observation)."""
    p = parser or impl.parser(kind)
    try:
        with Watchdog(10):
            res = p.parse(text)
    except Watchdog.Timeout:
        return ('timeout', None)
    except RecursionError:
        return ('internal:RecursionError', None)
    except Exception as e:  # noqa: BLE001
        cls = impl.outcome_class(e)
        if cls == 'value':
            msg = str(e)
            ok = msg.endswith('is not a valid function') and msg.split("'")[1] not in BUILTINS if "'" in msg else False
            if not ok:
                cls = 'internal:ValueError(' + msg[:60] + ')'
        # lark lists the expected terminals in set order: compare the first line only
        return (cls, (type(e).__name__, str(e).split('\n')[0]))
    try:
        obs = absyn.canon(absyn.lift(res, typed=True))
        meta = _meta(res)
    except Exception as e:  # noqa: BLE001
        return ('internal:unliftable result ' + type(e).__name__, None)
    return ('ok', (obs, meta))


def _meta(res):
    n = type(res).__name__
    if n == 'HplProperty':
        return tuple(sorted((str(k), str(v)) for k, v in res.metadata.items()))
    if n == 'HplSpecification':
        return tuple(tuple(sorted((str(k), str(v)) for k, v in p.metadata.items())) for p in res.properties)
    return ()


DOCUMENTED = ('ok', 'syntax', 'sanity', 'type', 'value')


def check_text(kind, text, r, witness_size=None):
    r.count('evaluations')
    r.count('transitions')
    cls, _ = classify(kind, text)
    r.outcomes[f'{kind}:{cls.split("(")[0]}'] += 1
    if cls not in DOCUMENTED:
        r.violation(f'undocumented failure: {cls.split("(")[0]} [{kind}]', {'kind': kind, 'text': text}, f'parsing «{text}» with the {kind} parser: {cls}', size=witness_size if witness_size is not None else len(text))


def nesting_texts(depth):
    out = []
    for d in (1, 2, 5, 10, 20, 35, depth):
        out.append(('expr', '(' * d + 'x' + ')' * d))
        out.append(('expr', 'not ' * d + 'p'))
        out.append(('expr', '- ' * d + 'x'))
        out.append(('expr', 'a' + '.b' * d))
        out.append(('expr', 'a' + '[0]' * d))
        out.append(('expr', 'xs' + '[xs' * d + '[0]' + ']' * d))
        out.append(('expr', 'abs(' * d + 'x' + ')' * d))
        out.append(('expr', '{' * d + '1' + '}' * d))
        out.append(('expr', ' + '.join(['x'] * (d + 1))))
        out.append(('expr', ' and '.join(['p'] * (d + 1))))
        out.append(('expr', ' ** '.join(['x'] * (d + 1))))
        out.append(('expr', ' implies '.join(['p'] * (d + 1))))
        out.append(('expr', ''.join(f'forall i{k} in xs: ' for k in range(d)) + ' and '.join(f'@i{k} > 0' for k in range(d))))
        out.append(('expr', '[' * d + '0 to 1' + ']' * d))
        out.append(('pred', '{ ' + '(' * d + 'x > 1' + ')' * d + ' }'))
        out.append(('prop', 'globally: no (' + ' or '.join(f'a{k}' for k in range(d + 1)) + ')'))
        out.append(('prop', 'globally: no (' + ' or '.join(f'a{k} as A{k} {{x > {k}}}' for k in range(d + 1)) + ')'))
        out.append(('prop', 'globally: no a {' + '(' * d + 'x > 1' + ')' * d + '}'))
        out.append(('spec', '\n'.join(f'# id: p{k}\nglobally: no a{k}' for k in range(d + 1))))
        out.append(('prop', '# id: p ' * d + 'globally: no a'))
    return out


def ownalias_texts():
    """An event that refers to its own message through its alias, in every kind of slot (the constructor rewrites
    these references, rebuilding every node above them), well-typed and ill-typed, in every event position."""
    conds = ['x in {@M.lo, @M.hi}', 'forall i in {@M.lo, @M.hi}: @i > 0', 'x in [@M.lo to @M.hi]', 'x in ![0 to len(@M.xs)]!', 'xs[@M.i] > 0', '@M.xs[@M.i] > 0', 'abs(@M.v) > 0', 'max({@M.a, 1}) > 0',
             'not @M.p', '@M.p implies @M.q', '-@M.x < 0', 'roll(@M) > 0', 'exists i in @M.xs: @i = @M.k', 'ms[@M.i].g = 1', 'sa = str(@M.x)', '@M.x + @M.y * 2 > @M.z ** 2', 'x in {@M, 1}', 'not @M', '@M.x and @M.x > 0',
             'forall i in @M.xs: (exists j in [0 to @M.n]: @i > @j)', 'x in {1, 2, @M.k} and y in {@M.k}', 'sum({@M.a, @M.b}) > prod([1 to @M.c])', '@N.x > 0', '@M.x > @Z.x']
    tmpls = ['globally: some a as M {%s}', 'after a as M {%s}: no b', 'until (b or a as M {%s}): some c', 'globally: b causes a as M {%s} within 1 s', 'globally: a as M {%s} requires b', 'after s as N: a as M {%s} forbids (b or c as M2 {@M2.k > @M.k})']
    out = []
    for c in conds:
        for t in tmpls:
            out.append(('prop', t % c))
        out.append(('spec', '# id: p1\n' + tmpls[0] % c + '\n# id: p2\n' + tmpls[1] % c))
    return out


def hygiene_bodies():
    """Quantifiers that re-bind, shadow, leak or never use a variable, at every depth and below every operator."""
    inner = ['exists x in ys: @x > 0', 'forall x in ys: @x > @x', 'exists x in [0 to 3]: xs[@x] > 0', 'exists y in ys: @y > 0', 'exists y in ys: @y > @x', 'exists y in ys: p']
    wraps = ['%s', 'b and %s', '%s or b', 'not %s', 'b implies %s', '@x > 0 and %s', '(%s) and @x > 0', 'not (b and not %s)', 'b and (q or %s)', '(exists z in zs: @z > 0) and %s',
             'exists y in [0 to int(%s)]: @y > 0', 'exists y in {int(%s), 1}: @y > @x', 'xs[int(%s)] > 0', 'xs[int(%s)] > @x', 'exists z in zs: (@z > 0 and %s)', 'exists z in zs: (@z > @x and %s)']
    outer = ['forall x in xs: (%s)', 'exists x in {1, 2}: (%s)', 'w and forall x in xs: (%s)', '(forall x in xs: (%s)) or @x > 0',
             # error messages print the offending node: sub-terms of every printing branch (negative and computed range bounds,
             # half-open brackets, sets with operators, calls, strings, constants)
             'forall x in [-5 to 5]: (%s)', 'exists x in ![-(y) to len(xs) + 1]!: (%s)', 'forall x in {-1, abs(y), 2 ** 3, PI}: (%s)', 'sa = "s" and exists x in m.zs[-1].k: (%s)']
    bodies = []
    for o in outer:
        for w in wraps:
            for i in inner:
                bodies.append(o % (w % ('(' + i + ')')))
    bodies += ['forall x in xs: p', 'forall x in @x: @x > 0', 'forall x in xs[@x]: @x > 0', 'forall x in [0 to @x]: @x > 0', 'forall x in {@x}: @x > 0', '@x > 0', 'forall x in xs: @y > 0', 'forall x in xs: (@x > 0 and @y > 0)']
    return bodies


def hygiene_texts():
    """The hygiene bodies through every entry point (sanity errors are documented; anything else is not)."""
    out = []
    for body in hygiene_bodies():
        out.append(('expr', body))
        out.append(('cond', body))
        out.append(('pred', '{ ' + body + ' }'))
        out.append(('prop', 'globally: no t { ' + body + ' }'))
        out.append(('prop', 'after s as x: no t { ' + body + ' }'))
        out.append(('prop', 'after s as A {' + body + '}: t {@A.k > 0} causes u { ' + body + ' } within 1 s'))
        out.append(('spec', '# id: p1\nglobally: some t { ' + body + ' }\n# id: p2\nglobally: no u'))
    return out


HISTORY_POOL = {
    'prop': [
        'globally: no a', '# id: p1 globally: some b {x > 1} within 100 ms', '# id: p2 # title: "t" after a as A: b {x = @A.x} causes c', 'globally: no a {',
        'globally: no a {x and 1}', 'globally: no a {@Z.x > 1}', 'globally: no a {foo(x) > 1}', '# id: d # id: d globally: no a', '# title: "only title" until e: b requires c',
        'globally: no (a or a)', '# id: q', '', 'globally: no a {forall i in xs: p}', 'after a until b: (c or d as D) forbids e within 2 s',
        '# title: "a" # title: "b" globally: no a', 'after a as M: no b {exists i in xs: @i > @M.y}', 'globally: no b {x > 0}', 'globally: no a {x = 1.0} within 1.0 s', 'globally: no a {x = 1} within 1 s', 'globally: no a {x = 1e0 and y = 10}', 'globally: no a {y = 1e1}',
    ],
    'spec': [
        'globally: no a', '# id: p1 globally: some b # id: p2 globally: no c', '# id: p1 globally: some b globally: no c', 'globally: no a {', '# id: d # id: d globally: no a',
        'globally: no a {x and 1}', '# id: z globally: no a {@Z.x > 1}', '', '# id: q', '# title: "t" globally: no a # description: "d" globally: no b',
        'globally: no a {foo(x) > 1}', '# id: last globally: no a # id: dangling', 'until e: b requires c within 1 s', 'globally: no (a or a)',
        '# description: "a" # description: "a" globally: no a', 'after a as M: no b {exists i in xs: @i > @M.y} globally: no b {x > 0}', 'globally: no a {x = 1.0}', 'globally: no a {x = 1}', 'globally: no a {x = 10} globally: no b {x = 1e1}',
    ],
    'pred': ['{s = "a  b"}', '{s = "a b"}', '{s = "a\tb" or s = "a b"}', '{forall x in xs: (b and exists x in ys: @x > 0)}', '{x = 1.0}', '{x = 1}', '{x = 1e0 or y = 2.50}', '{y = 2.5}', '{x > 1}', '{x', '{x and 1}', '{foo(x) > 1}', '{True}', '{forall i in xs: p}', '{p}', '{x > 1} }', '', '{@A.x = x}', '{not False}', '{x in {1,2}}', '{1 +}', '{len(xs) > 0}'],
    'expr': ['s = "a  b"', 's = "a b"', 's = "a\tb"', 'x = 1.0', 'x = 1', 'x = 1e0 or y = 2.50', 'y = 2.5', 'x > 1', 'x >', 'x and 1', 'foo(x)', 'True', 'forall i in xs: p', 'p', ')', '', '@A.x = x', 'not False', 'x in {1,2}', '1 +', 'len(xs)'],
    'cond': ['s = "a  b"', 's = "a b"', 's = "a\tb"', 'x = 1.0', 'x = 1', 'x = 1e0 or y = 2.50', 'y = 2.5', 'x > 1', 'x >', 'x and 1', 'foo(x)', 'True', 'forall i in xs: p', 'p', ')', '', '@A.x = x', 'False', 'x + 1', '1 +', 'len(xs) > 0'],
}


def plan(tier):
    b = bounds(tier)
    units = []
    for kind in ('expr', 'pred', 'cond', 'prop', 'spec'):
        for first in ALPHABET:
            units.append(('seq_full', tier, kind, first))
    for kind, alpha in (('expr', c01.CORE_ALPHABET), ('pred', c01.CORE_ALPHABET), ('prop', c01.PROP_CORE)):
        for first in alpha:
            for second in alpha:
                units.append(('seq_core', tier, kind, first, second))
    for kind, texts in c01.CORPUS.items():
        for i in range(len(texts)):
            units.append(('edits', tier, kind, i))
            units.append(('charins', tier, kind, i))
    for kind in ('expr', 'pred', 'cond', 'prop', 'spec'):
        for c in AWKWARD:
            units.append(('chars', tier, kind, c))
    units.append(('nesting', tier))
    units.append(('hygiene', tier))
    units.append(('ownalias', tier))
    units += [('functions', tier, k, 8) for k in range(8)]
    units += [('typemix', tier, k, 4) for k in range(4)]
    for kind in HISTORY_POOL:
        for first in range(len(HISTORY_POOL[kind])):
            units.append(('history', tier, kind, first))
    return units


def run(unit):
    r = Result()
    what, tier = unit[0], unit[1]
    b = bounds(tier)
    if what == 'seq_full':
        _, _, kind, first = unit
        for n in range(1, b['seq_len_full'] + 1):
            for rest in product(ALPHABET, repeat=n - 1):
                check_text(kind, ' '.join([first] + list(rest)), r, n)
        r.count('states', r.counters['evaluations'])
    elif what == 'seq_core':
        _, _, kind, first, second = unit
        alpha = c01.PROP_CORE if kind == 'prop' else c01.CORE_ALPHABET
        L = b['seq_len_core'] + (2 if kind == 'prop' else 0)
        for n in range(2, L + 1):
            for rest in product(alpha, repeat=n - 2):
                toks = [first, second] + list(rest)
                if kind == 'prop' and n > 4 and toks[0] not in ('globally', 'after', 'until'):
                    continue
                check_text(kind, ' '.join(toks), r, n)
        r.count('states', r.counters['evaluations'])
    elif what == 'edits':
        _, _, kind, i = unit
        base = c01.CORPUS[kind][i].split(' ')
        for ed in c01.edits(base, ALPHABET):
            check_text(kind, ' '.join(ed), r, len(ed))
            if b['double_edits'] and len(base) <= 8:
                for ed2 in c01.edits(ed, c01.CORE_ALPHABET if kind in ('expr', 'pred') else c01.PROP_CORE):
                    check_text(kind, ' '.join(ed2), r, len(ed2))
        r.count('states', r.counters['evaluations'])
        r.sample({'edited_base': c01.CORPUS[kind][i]})
    elif what == 'charins':
        _, _, kind, i = unit
        text = c01.CORPUS[kind][i]
        for pos in range(len(text) + 1):
            for c in AWKWARD:
                check_text(kind, text[:pos] + c + text[pos:], r, 1)
        r.count('states', r.counters['evaluations'])
    elif what == 'chars':
        _, _, kind, c = unit
        for n in range(1, b['chars_len'] + 1):
            for rest in product(AWKWARD, repeat=n - 1):
                check_text(kind, c + ''.join(rest), r, n)
        # and between valid fragments
        for frag in ('x', '1', '"a"', 'globally: no a'):
            check_text(kind, frag + c, r, 2)
            check_text(kind, c + frag, r, 2)
        r.count('states', r.counters['evaluations'])
        r.sample({'string': repr(c + AWKWARD[3])})
    elif what == 'nesting':
        for kind, text in nesting_texts(b['depth']):
            check_text(kind, text, r, len(text))
        r.count('states', r.counters['evaluations'])
        r.sample({'nesting': nesting_texts(5)[5][1]})
    elif what == 'hygiene':
        for kind, text in hygiene_texts():
            check_text(kind, text, r, len(text))
        r.count('states', r.counters['evaluations'])
        r.sample({'hygiene': hygiene_texts()[7][1]})
    elif what == 'functions':
        # every built-in function (and two unknown ones) x every argument shape, alone and inside a comparison /
        # a predicate / a property, through every entry point
        from hplmc.checks.c06 import FUNCTIONS

        args = ['x', 'xs', 'm', 's', 'p', '1', '0', '-1', '2.5', '"a"', 'True', '@A.x', '@A.xs', '@v', '{1, 2}', '{x}', '{x, y, 1}', '{}', '[0 to 3]', '![3 to 1]!', '[x to 3]', 'xs[0]', 'm.f', 'x + 1', '-x', 'abs(x)', 'len(xs)',
                'x, y', 'x, 1, 2', '', 'not p', 'x > 1', 'forall i in xs: @i > 0']
        n = 0
        for f in list(FUNCTIONS) + ['foo', 'Max']:
            for a in args:
                n += 1
                if n % unit[3] != unit[2]:
                    continue
                call = f'{f}({a})'
                for kind, text in (('expr', call), ('expr', f'{call} > 0'), ('cond', f'{call} = y or p'), ('pred', '{ ' + call + ' <= x }'), ('prop', 'globally: no t { ' + call + ' > 0 }'),
                                   ('prop', 'after s as A: t { not ' + call + ' = 1 } causes u'), ('spec', '# id: f\nglobally: some t { ' + call + ' != 2 }')):
                    check_text(kind, text, r, len(text))
        r.count('states', r.counters['evaluations'])
        r.sample({'function_call': 'max(xs) > 0'})
    elif what == 'typemix':
        # type errors whose message has to name a combination of base types: a variable bound over a set literal with
        # members of 1-3 different kinds (or over a range / an array), used where each single type is demanded
        from itertools import combinations

        members = ['1', 'True', '"a"', 'x', 'xs', '[0 to 1]', '{1}', 'm.f', '@A.y']
        uses = ['not @v', '@v + 1 > 0', '(@v implies p)', 'xs[@v] > 0', 'len(@v) > 0', '@v.f > 0', '@v = "a"', '@v in xs', '@v < "s"', '@v[0] = 1', '(@v and @v > 1)', 'x in [@v to 3]', 'abs(@v) = @v', '@v']
        doms = ['{' + ', '.join(c) + '}' for n_ in (1, 2, 3) for c in combinations(members, n_)] + ['[0 to 3]', 'xs', '@A.xs', '{}', 'x', '"a"', '1']
        n = 0
        for dom in doms:
            for use in uses:
                for q in ('forall', 'exists'):
                    n += 1
                    if n % unit[3] != unit[2]:
                        continue
                    body = f'{q} v in {dom}: {use}'
                    for kind, text in (('expr', body), ('pred', '{ ' + body + ' }'), ('prop', 'after s as A: no t { ' + body + ' }')):
                        check_text(kind, text, r, len(text))
        r.count('states', r.counters['evaluations'])
        r.sample({'typemix': 'forall v in {1, "a"}: (@v implies p)'})
    elif what == 'ownalias':
        for kind, text in ownalias_texts():
            check_text(kind, text, r, len(text))
        r.count('states', r.counters['evaluations'])
        r.sample({'ownalias': ownalias_texts()[0][1]})
    elif what == 'history':
        _, _, kind, first = unit
        pool = HISTORY_POOL[kind]
        fresh = {}
        for i, text in enumerate(pool):
            fresh[i] = classify(kind, text, impl.fresh_parser(kind))
            if fresh[i][0] not in DOCUMENTED:
                r.violation(f'undocumented failure: {fresh[i][0].split("(")[0]} [{kind}]', {'kind': kind, 'text': text}, f'parsing «{text}»: {fresh[i][0]}', size=len(text))
        # E4: all call histories of length <= L on ONE parser object, starting with `first`
        L = b['history_len']
        shared = impl.fresh_parser(kind)
        seen_states = set()
        for n in range(2, L + 1):
            for rest in product(range(len(pool)), repeat=n - 1):
                hist = (first,) + rest
                r.count('evaluations')
                obs = None
                for idx in hist:
                    r.count('transitions')
                    obs = classify(kind, pool[idx], shared)
                last = hist[-1]
                seen_states.add((hist[-2:], obs[0]))
                if obs != fresh[last]:
                    r.violation(
                        f'parser result depends on earlier calls [{kind}]',
                        {'kind': kind, 'history': [pool[i] for i in hist]},
                        f'after {[pool[i] for i in hist[:-1]]} the text «{pool[last]}» gives {str(obs)[:200]} but a fresh parser gives {str(fresh[last])[:200]}',
                        size=len(hist),
                    )
                r.outcomes[f'history:{kind}:{obs[0]}'] += 1
        r.count('states', len(seen_states))
        r.sample({'history': [pool[first], pool[3], pool[1]]})
    r.count('validated', r.counters['evaluations'])
    return r


def replay(w):
    r = Result()
    if 'history' in w:
        kind = w['kind']
        shared = impl.fresh_parser(kind)
        obs = None
        for text in w['history']:
            obs = classify(kind, text, shared)
        fresh = classify(kind, w['history'][-1], impl.fresh_parser(kind))
        if obs != fresh:
            return [{'sig': 'parser result depends on earlier calls', 'detail': f'{obs} vs {fresh}'}]
        return []
    check_text(w['kind'], w['text'], r)
    return [{'sig': v['sig'], 'detail': v['detail']} for v in r.violations]


def describe(tier):
    b = bounds(tier)
    return {
        'rule': f"Plus quantifiers over set literals with members of 1-3 kinds among 9 (and over ranges, arrays and non-containers) x 14 uses of the bound variable that each demand one type x 2 quantifiers x 3 entry points (type errors whose message names a combination of types). (a) all token sequences of length <= {b['seq_len_full']} over a {len(ALPHABET)}-token alphabet and <= {b['seq_len_core']} over a core alphabet, 5 entry points; (b) all single{' and double' if b['double_edits'] else ''} token edits of a {sum(len(v) for v in c01.CORPUS.values())}-text corpus; (c) all strings of length <= {b['chars_len']} over {len(AWKWARD)} awkward characters and every single insertion of each at every position of the corpus; (d) 20 nesting shapes at depths 1..{b['depth']}; (e) every call history of length <= {b['history_len']} over a 18/19-text pool on one parser object per entry point (5 entry points), last outcome compared with a fresh parser. (h) 29 function names (the 27 built-in ones, an unknown one, a wrongly capitalised one) x 33 argument shapes x 7 entry-point shapes. (g) 24 predicates that refer to the event's own alias in every kind of slot x 6 event positions + files. (f) quantifier hygiene: 8 outer quantifiers (4 of them over domains that exercise every printing branch, since the messages quote the offending node) x 16 wrappers (every connective, domains through int(...), indices, a second quantifier) x 6 inner quantifiers that re-bind / shadow / leak / never use a variable, through 7 entry-point shapes. A transition = one parser call; states (e) = distinct (last two calls, outcome) triples.",
        'bounds': b,
        'exhaustive': True,
        'assumptions': ['documented failure classes: HplSyntaxError, HplSanityError, TypeError, ValueError for an unknown function name; watchdog of 10 s per call for termination'],
    }
