"""C08 - simplify preserves meaning.

Universe: every well-sorted Bool / Num term of the alphabet below up to the
node bound (smallest first, complete) + shape-directed families aimed at the
shortcuts visible in hpl.rewrite, x every valuation of the term's slots over the
grid, x every iteration order the simplifier can obtain from `set(...)`
(deviation-bounded).  Oracle: reference evaluator, all admissible readings.
"""

from __future__ import annotations

import json

from hplmc import absyn, impl
from hplmc.core import Result
from hplmc.ref import eval as E
from hplmc.universe import (FALSE, TRUE, Grammar, alias_field, num, slots, this_field, valuations)

ID = 'C08'
tf = this_field

RANGE_FLAGS = ((False, False), (True, True), (True, False), (False, True))


def grammar(tier):
    atoms = {
        'N': [tf('x'), tf('y'), alias_field('A', 'x'), num(0), num(1), num(2)],
        'B': [tf('p'), tf('q'), TRUE, FALSE],
        'A': [tf('xs')],
    }
    funcs = {'abs': ('N', 'N')}
    return Grammar(
        atoms,
        funcs=funcs,
        quants=('forall', 'exists'),
        domains=('A', 'SET', 'R'),
        set_widths=(1, 2, 3),
        range_flags=RANGE_FLAGS,
        inclusion=('A', 'SET', 'R'),
        eq_sorts=('N', 'B'),
    )


AGG = ('len', 'sum', 'prod', 'max', 'min')


def families(tier):
    """Shape-directed families (each aimed at one shortcut in hpl.rewrite)."""
    x, y, ax = tf('x'), tf('y'), alias_field('A', 'x')
    p, q = tf('p'), tf('q')
    natoms = [x, y, ax, num(0), num(1), num(2)]
    small = [x, ax, num(0), num(1), num(2)]
    out = []
    # F1: aggregates over sets / ranges / arrays, alone and compared
    for f in AGG + ('gcd',):
        for w in (1, 2, 3):
            from itertools import product

            for elems in product(small, repeat=w):
                out.append(('call', f, (('set', tuple(elems)),)))
        for lo in (num(0), num(1), num(2), x):
            for hi in (num(0), num(1), num(2), num(3), x):
                for fl in RANGE_FLAGS:
                    out.append(('call', f, (('range', lo, hi, fl[0], fl[1]),)))
        out.append(('call', f, (tf('xs'),)))
    # F2: (a op b) op (c op d) regrouping for every associative-flagged operator
    pool = [x, ax, num(1), num(2)]
    for op in ('+', '*', '**', '-', '/'):
        for a in pool:
            for b in pool:
                for c in pool:
                    out.append(('bin', op, ('bin', op, a, b), c))
                    out.append(('bin', op, a, ('bin', op, b, c)))
                    if tier == 'thorough':
                        for d in pool:
                            out.append(('bin', op, ('bin', op, a, b), ('bin', op, c, d)))
    bpool = [p, q, tf('r'), ('bin', '>', ax, num(0))]
    for op in ('and', 'or', 'iff', 'implies'):
        for a in bpool:
            for b in bpool:
                for c in bpool:
                    out.append(('bin', op, ('bin', op, a, b), c))
                    out.append(('bin', op, a, ('bin', op, b, c)))
                    for d in bpool:
                        out.append(('bin', op, ('bin', op, a, b), ('bin', op, c, d)))
    # F3: comparison of a binary operation with one of its operands ("obviously different")
    for cmp in ('=', '!=', '<', '<=', '>', '>='):
        for op in ('+', '-', '*', '/', '**'):
            for a in (x, ax):
                for k in (num(0), num(1), num(2), ('un', '-', num(1)), y):
                    lhs = ('bin', op, a, k)
                    out.append(('bin', cmp, lhs, a))
                    out.append(('bin', cmp, a, lhs))
                    out.append(('bin', cmp, ('bin', op, k, a), a))
        for a in (x, ax):
            out.append(('bin', cmp, ('un', '-', a), a))
            out.append(('bin', cmp, a, ('un', '-', a)))
            out.append(('bin', cmp, ('call', 'abs', (a,)), a))
    # F4: equalities between equalities / mixed sorts (=, != flagged associative)
    for op1 in ('=', '!='):
        for op2 in ('=', '!='):
            for a in (x, num(1)):
                for b in (y, num(1)):
                    out.append(('bin', op1, ('bin', op2, a, b), p))
                    out.append(('bin', op1, p, ('bin', op2, a, b)))
                    out.append(('bin', op1, ('bin', op2, p, q), ('bin', op2, a, b)))
    # F5: conjunction / disjunction chains with duplicates (exercise the set(...) path)
    lits = [p, q, ('un', 'not', p), ('bin', '>', x, num(0))]
    from itertools import product

    for op in ('and', 'or'):
        for w in (3, 4):
            if w == 4 and tier != 'thorough':
                continue
            for combo in product(lits, repeat=w):
                if len(set(combo)) == w:
                    continue  # only chains with a repeated member
                t = combo[0]
                for c in combo[1:]:
                    t = ('bin', op, t, c)
                out.append(t)
                t = combo[-1]
                for c in reversed(combo[:-1]):
                    t = ('bin', op, c, t)
                out.append(t)
    # F6: sets with repeated / foldable members
    for elems in product([x, num(1), ('bin', '+', num(0), num(1)), ('bin', '+', x, num(0))], repeat=3):
        out.append(('bin', 'in', y, ('set', tuple(elems))))
        out.append(('bin', '=', ('call', 'len', (('set', tuple(elems)),)), y))
    # F7: numeric functions on literals (constant folding)
    for f in ('abs', 'sqrt', 'ceil', 'floor', 'sin', 'cos', 'tan', 'asin', 'acos', 'atan', 'deg', 'rad', 'int', 'float', 'bool'):
        for a in (num(0), num(1), num(2), ('lit', '2.5', 2.5), ('un', '-', num(1)), ('un', '-', ('lit', '2.5', 2.5)), x):
            t = ('call', f, (a,))
            out.append(('bin', '=', t, TRUE) if f == 'bool' else ('bin', '<', t, y))
    # F2b: (a op b) op (c op d) for the regrouped operators with negated and third-field members (both tiers)
    pool2 = [x, ('un', '-', x), tf('z'), ax, num(1), num(0)]
    for op in ('+', '*'):
        for a in pool2:
            for b in pool2:
                for c in pool2:
                    for d in pool2:
                        out.append(('bin', '=', ('bin', op, ('bin', op, a, b), ('bin', op, c, d)), y))
    # F9: ranges with a bound that simplify rewrites, every bracket form, under in / len / sum / max / quantifiers
    sbounds = [('bin', '+', num(1), num(1)), ('bin', '+', x, num(0)), ('bin', '*', num(2), num(1)), ('un', '-', ('un', '-', num(1)))]
    for fl in RANGE_FLAGS:
        for sb in sbounds:
            for rng in (('range', sb, num(3), fl[0], fl[1]), ('range', num(0), sb, fl[0], fl[1]), ('range', sb, sb, fl[0], fl[1])):
                out.append(('bin', 'in', y, rng))
                for f in ('len', 'sum', 'max', 'min', 'prod'):
                    out.append(('bin', '=', ('call', f, (rng,)), y))
                out.append(('quant', 'exists', 'i', rng, ('bin', '=', ('var', 'i'), y)))
    # F10: very large literal ranges and integers (folding must not overflow or lose precision)
    big = [('lit', '18446744073709551615', 18446744073709551615), ('lit', '9223372036854775808', 9223372036854775808), ('lit', '9007199254740993', 9007199254740993)]
    for b_ in big:
        out.append(('bin', '>', ('call', 'len', (('range', num(0), b_, False, False),)), num(0)))
        for f_ in ('sum', 'prod', 'max', 'min'):
            out.append(('bin', '>=', ('call', f_, (('range', num(0), b_, True, False),)), num(0)))
            out.append(('bin', '>=', ('call', f_, (('range', ('un', '-', num(2)), b_, False, False),)), num(0)))
        out.append(('bin', 'in', y, ('range', num(0), b_, False, True)))
        out.append(('bin', '=', ('bin', '+', b_, num(1)), ('bin', '+', num(1), b_)))
        out.append(('bin', '=', ('bin', '-', ('bin', '+', b_, num(1)), b_), num(1)))
        out.append(('bin', '>', ('bin', '*', b_, num(2)), b_))
    # F10b: the folded sum / length of a long literal range is exact: equated with the exact integer (closed form computed
    # here with integer arithmetic) and with that integer +- 1, for upper bounds around 2**26.5 (where n*(a+b) passes
    # 2**53), 2**31, 2**32, 3e9, 2**53, 2**63, 2**64 and three lower bounds, every bracket form
    def I(n_):
        return ('lit', str(n_), n_) if n_ >= 0 else ('un', '-', ('lit', str(-n_), -n_))

    for hi in (94906265, 94906267, 134217729, 2147483647, 4294967295, 3000000001, 9007199254740993, 9223372036854775807, 18446744073709551615):
        for lo in (0, 1, -3):
            for fl in RANGE_FLAGS:
                a_, b__ = lo + (1 if fl[0] else 0), hi - (1 if fl[1] else 0)
                exact, count = (a_ + b__) * (b__ - a_ + 1) // 2, b__ - a_ + 1
                rng = ('range', I(lo), I(hi), fl[0], fl[1])
                for delta in (0, 1, -1):
                    out.append(('bin', '=', ('call', 'sum', (rng,)), I(exact + delta)))
                out.append(('bin', '=', ('call', 'len', (rng,)), I(count)))
                out.append(('bin', '<', ('call', 'sum', (rng,)), I(exact)))
                out.append(('bin', '=', ('bin', '-', ('call', 'sum', (rng,)), I(exact)), num(0)))
    # F11: power laws that only hold for some bases / exponents: towers, products and quotients of powers with
    # literal exponents of every kind (even, odd, fractional, negative, 0, 1), roots of squares
    exps = [num(2), num(3), ('lit', '0.5', 0.5), ('lit', '1.5', 1.5), ('un', '-', num(1)), ('un', '-', num(2)), num(1), num(0), num(4)]
    for base in (x, ax, ('un', '-', x), ('var', 'v')):
        for e1 in exps:
            for e2 in exps:
                out.append(('bin', '<', ('bin', '**', ('bin', '**', base, e1), e2), y))
                out.append(('bin', '=', ('bin', '**', base, ('bin', '**', e1, e2)), y))
                out.append(('bin', '>', ('bin', '*', ('bin', '**', base, e1), ('bin', '**', base, e2)), y))
                out.append(('bin', '>', ('bin', '/', ('bin', '**', base, e1), ('bin', '**', base, e2)), y))
            out.append(('bin', '=', ('bin', '**', ('bin', '*', base, y), e1), ('bin', '*', ('bin', '**', base, e1), ('bin', '**', y, e1))))
            out.append(('bin', '=', ('call', 'sqrt', (('bin', '**', base, e1),)), base))
            out.append(('bin', '=', ('bin', '**', ('call', 'abs', (base,)), e1), ('bin', '**', base, e1)))
            out.append(('bin', '=', ('bin', '**', ('call', 'sqrt', (base,)), e1), base))
    # F8: a compound operand next to its own negation (the "obvious negatives" shortcuts on non-atomic operands)
    bcores = [('bin', 'and', p, q), ('bin', 'or', p, q), ('bin', '>', x, num(0)), ('bin', 'implies', p, q), ('un', 'not', p), ('bin', '=', x, y), ('bin', 'in', x, tf('xs'))]
    for c in bcores:
        n = ('un', 'not', c)
        for op in ('and', 'or', 'iff', 'implies', '=', '!='):
            out.append(('bin', op, c, n))
            out.append(('bin', op, n, c))
            out.append(('bin', op, c, c))
    ncores = [('bin', '+', x, num(1)), ('bin', '*', x, y), ('bin', '-', x, y), ('un', '-', x), ('call', 'abs', (x,)), ('bin', '/', x, num(2)), ('bin', '**', x, num(2))]
    for c in ncores:
        n = ('un', '-', c)
        for op in ('+', '-', '*', '/', '=', '!=', '<', '>='):
            rel = op in ('=', '!=', '<', '>=')
            for a, b_ in ((c, n), (n, c), (c, c)):
                t = ('bin', op, a, b_)
                out.append(t if rel else ('bin', '=', t, y))
    # dedupe, keep order
    seen = set()
    res = []
    for t in out:
        k = absyn.canon(t)
        if k not in seen:
            seen.add(k)
            res.append(t)
    return res


def bounds(tier):
    return {'nodes': 5 if tier == 'quick' else 6, 'set_order_deviations': 1 if tier == 'quick' else 2}


NSHARD = 48


def plan(tier):
    b = bounds(tier)
    units = []
    for sort in ('B', 'N'):
        for n in range(1, b['nodes'] + 1):
            shards = 1 if n <= 4 else NSHARD
            for k in range(shards):
                units.append(('terms', tier, sort, n, k, shards))
    nf = len(families(tier))
    for k in range(NSHARD):
        units.append(('family', tier, k, NSHARD))
    units.append(('api-predicates', tier))
    return units


# ---------------------------------------------------------------------------
# one term
# ---------------------------------------------------------------------------

ALLOWED_SIMPLIFY_ERRORS = ('ZeroDivisionError', 'ValueError', 'OverflowError')


def _sort_of_slot(slot):
    from hplmc.universe import NAME_SORT

    return NAME_SORT.get(slot[1], 'N')  # an escaped bound variable (i, j) is a number


def compare(t_in, t_out, r=None):
    """Evaluate input and output on every valuation; return a list of
    counterexample descriptions (empty = equivalent on the grid)."""
    sl = slots(t_in)
    out_slots = slots(t_out)
    extra = [s for s in out_slots if s not in sl]
    allsl = sl + extra
    bad = []
    nval = 0
    for env in valuations(allsl, sort_of=_sort_of_slot):
        nval += 1
        vi = E.value(t_in, env, E.READINGS[0])
        if vi[0] == 'undef':
            continue
        vo = E.value(t_out, env, E.READINGS[0])
        if vo[0] == 'ok' and E.same(vi[1], vo[1]):
            continue
        # mismatch under the first reading: a violation only if it persists under all readings
        persists = True
        for cfg in E.READINGS[1:]:
            wi = E.value(t_in, env, cfg)
            if wi[0] == 'undef':
                persists = False
                break
            wo = E.value(t_out, env, cfg)
            if wo[0] == 'ok' and E.same(wi[1], wo[1]):
                persists = False
                break
        if persists:
            bad.append({'env': _env_json(env), 'input_value': _vjson(vi), 'output_value': _vjson(vo)})
            if len(bad) >= 3:
                break
        elif r is not None:
            r.notes['reading_sensitive_valuations'] += 1
    if r is not None:
        r.count('valuations', nval)
    return bad


def _vjson(v):
    return [v[0], str(v[1])]


def _env_json(env):
    return {(k if isinstance(k, str) else '@' + k[1]): v for k, v in env.items()}


def run_simplify(ast, choices=()):
    from hpl.rewrite import simplify

    from hplmc.core import Watchdog

    seam = impl.OrderedSetSeam(choices)
    with seam:
        try:
            with Watchdog(20):
                out = simplify(ast)
            return ('ok', out, seam.points)
        except Watchdog.Timeout:
            return ('no termination within 20 s', '', seam.points)
        except RecursionError as e:
            return ('RecursionError', e, seam.points)
        except Exception as e:  # noqa: BLE001
            return (type(e).__name__, e, seam.points)


def check_term(t, sort, tier, r=None, explore_orders=True):
    """All obligations of C08 on one abstract term.  Returns list of (kind, detail)."""
    problems = []
    text = absyn.expr_text(t)
    st, ast = impl.try_parse('expr', text)
    if st != 'ok':
        if r is not None:
            r.notes['rejected_by_parser:' + st] += 1
        return problems
    lifted_in = absyn.lift(ast)
    if absyn.canon(lifted_in) != absyn.canon(t):
        # the parser's tree is not the intended one: C01's business; evaluate what was parsed
        if r is not None:
            r.notes['parsed_tree_differs_from_intended'] += 1
    t_in = lifted_in
    typed_in = absyn.lift(ast, typed=True)
    undefined_const = None

    def one(choices):
        nonlocal undefined_const
        st, out, points = run_simplify(ast, choices)
        if r is not None:
            r.count('transitions')
        if st != 'ok':
            if undefined_const is None:
                undefined_const = E.constant_undefined(t_in)
            if undefined_const:  # the statement does not restrict the exception class here
                if r is not None:
                    r.outcomes['raised-on-undefined-constant'] += 1
                return points
            problems.append(('raised ' + st, f'simplify({text}) raised {st}: {str(out)[:200]} (choices={list(choices)})'))
            return points
        try:
            t_out = absyn.lift(out)
            typed_out = absyn.lift(out, typed=True)
        except absyn.LiftError as e:
            problems.append(('bad result kind', f'simplify({text}) returned {out!r}: {e}'))
            return points
        if t_out[0] in ('pred', 'ptrue', 'pfalse'):
            problems.append(('bad result kind', f'simplify(expression {text}) returned a predicate'))
            return points
        if typed_out[1] != typed_in[1]:
            problems.append(('type changed', f'simplify({text}) = {absyn.expr_text(t_out)}: data_type {typed_in[1]} -> {typed_out[1]}'))
        bad = compare(t_in, t_out, r)
        if bad:
            problems.append(('wrong value', f'simplify({text}) = {_safe_text(t_out)} differs: {json.dumps(bad[0], default=str)} (choices={list(choices)})'))
        if r is not None:
            r.outcomes['changed' if absyn.canon(t_out) != absyn.canon(t_in) else 'unchanged'] += 1
        return points

    points = one(())
    # E5: set iteration orders, deviation-bounded
    if explore_orders and any(p > 1 for p in points):
        maxdev = bounds(tier)['set_order_deviations']
        frontier = [((), points)]
        explored = 0
        while frontier:
            prefix, pts = frontier.pop()
            ndev = sum(1 for c in prefix if c)
            if ndev >= maxdev:
                continue
            for i in range(len(prefix), len(pts)):
                for alt in range(1, pts[i]):
                    choices = tuple(prefix) + (0,) * (i - len(prefix)) + (alt,)
                    explored += 1
                    if explored > 200:
                        if r is not None:
                            r.notes['cap_hit_set_orders'] += 1
                        frontier = []
                        break
                    npts = one(choices)
                    if len(npts) > len(choices):
                        frontier.append((choices, npts))
                else:
                    continue
                break
        if r is not None:
            r.count('set_order_executions', explored)
    # predicate wrapping
    if sort == 'B' and not problems:
        problems += check_predicate(t_in, text, r)
    return problems


def check_predicate(t_in, text, r=None):
    from hpl.rewrite import simplify

    problems = []
    st, pred = impl.try_parse('pred', '{ ' + text + ' }')
    if st != 'ok':
        return problems
    lp = absyn.lift(pred)
    try:
        with impl.OrderedSetSeam():
            sp = simplify(pred)
            if lp[0] == 'pred':
                se = simplify(pred.expression)
            else:
                se = None
    except Exception as e:  # noqa: BLE001
        if E.constant_undefined(t_in):
            return problems
        problems.append(('predicate: raised ' + type(e).__name__, f'simplify({{ {text} }}) raised {type(e).__name__}: {str(e)[:200]}'))
        return problems
    if r is not None:
        r.count('transitions', 2)
    try:
        ls = absyn.lift(sp)
    except absyn.LiftError:
        ls = ('?',)
    if ls[0] not in ('pred', 'ptrue', 'pfalse'):
        problems.append(('predicate: bad result kind', f'simplify(predicate {{ {text} }}) returned {type(sp).__name__}'))
        return problems
    if se is None:
        if ls != lp:
            problems.append(('predicate: vacuous changed', f'simplify({lp}) = {ls}'))
        return problems
    le = absyn.lift(se)
    if le == ('lit', 'True', True):
        exp = ('ptrue',)
    elif le == ('lit', 'False', False):
        exp = ('pfalse',)
    else:
        exp = ('pred', le)
    if absyn.canon(exp) != absyn.canon(ls):
        problems.append(('predicate: wrapping', f'simplify({{ {text} }}) = {ls} but the simplified condition is {le}'))
    return problems


def _safe_text(t):
    try:
        return absyn.expr_text(t)
    except Exception:  # noqa: BLE001
        return repr(t)


# ---------------------------------------------------------------------------
# cores and signatures
# ---------------------------------------------------------------------------

_core_memo = {}


def _fails(t, sort, tier):
    k = absyn.canon(t)
    v = _core_memo.get(k)
    if v is None:
        try:
            v = [p[0] for p in check_term(t, sort, tier, None, explore_orders=False)]
        except Exception:  # noqa: BLE001
            v = []
        _core_memo[k] = v
    return v


def _expr_children(t):
    tag = t[0]
    if tag in ('lit', 'this', 'var', 'field'):
        return []
    if tag == 'index':
        return [(t[2], 'N')]
    if tag == 'un':
        return [(t[2], 'B' if t[1] == 'not' else 'N')]
    if tag == 'bin':
        op = t[1]
        if op in ('and', 'or', 'implies', 'iff'):
            return [(t[2], 'B'), (t[3], 'B')]
        if op == 'in':
            return [(t[2], 'N'), (t[3], 'C')]
        if op in ('=', '!='):
            s = 'B' if _is_bool(t[2]) else 'N'
            return [(t[2], s), (t[3], s)]
        return [(t[2], 'N'), (t[3], 'N')]
    if tag == 'quant':
        return [(t[3], 'C')]  # the body has a bound variable: not a standalone term
    if tag == 'set':
        return [(e, 'N') for e in t[1]]
    if tag == 'range':
        return [(t[1], 'N'), (t[2], 'N')]
    if tag == 'call':
        return [(a, 'C' if t[1] in AGG + ('gcd',) else 'N') for a in t[2]]
    return []


def _is_bool(t):
    tag = t[0]
    if tag == 'lit':
        return isinstance(t[2], bool)
    if tag == 'un':
        return t[1] == 'not'
    if tag == 'bin':
        return t[1] not in ('+', '-', '*', '/', '**')
    if tag == 'quant':
        return True
    if tag == 'field':
        return t[2] in ('p', 'q', 'r')
    return False


def core_of(t, sort, kind, tier):
    """Smallest failing sub-term (same failure kind) of a failing term."""
    for (c, s) in _expr_children(t):
        if s == 'C':
            for (cc, ss) in _expr_children(c):
                if ss in ('N', 'B') and kind in _fails(cc, ss, tier):
                    return core_of(cc, ss, kind, tier)
            continue
        if kind in _fails(c, s, tier):
            return core_of(c, s, kind, tier)
    return t


def generalise(t):
    """Rename same-sort field atoms in first-occurrence order (x,y / p,q,r)."""
    order = {'N': ['x', 'y', 'z'], 'B': ['p', 'q', 'r']}
    mapping = {}

    def ren(t):
        if not isinstance(t, tuple):
            return t
        if t and t[0] == 'field' and t[1] == ('this',) and t[2] in ('x', 'y', 'z', 'p', 'q', 'r'):
            s = 'N' if t[2] in 'xyz' else 'B'
            if t[2] not in mapping:
                used = [v for k, v in mapping.items() if (k in 'xyz') == (s == 'N')]
                mapping[t[2]] = order[s][len(used)]
            return ('field', ('this',), mapping[t[2]])
        return tuple(ren(x) for x in t)

    return ren(t)


def signature(t, sort, kind, tier):
    core = generalise(core_of(t, sort, kind, tier))
    return f'{kind}: simplify({_safe_text(core)})'


# ---------------------------------------------------------------------------
# units
# ---------------------------------------------------------------------------


def _process(t, sort, tier, r):
    r.count('evaluations')
    r.count('states')
    problems = check_term(t, sort, tier, r)
    r.count('validated')
    for kind, detail in problems:
        sig = signature(t, sort, kind, tier)
        r.violation(sig, {'term': t, 'sort': sort, 'text': _safe_text(t)}, detail, size=absyn.size(t))


def run(unit):
    r = Result()
    if unit[0] == 'terms':
        _, tier, sort, n, k, shards = unit
        g = grammar(tier)
        for i, t in enumerate(g.stream(sort, n)):
            if i % shards != k:
                continue
            _process(t, sort, tier, r)
            if i % 5003 == 0:
                r.sample({'term': absyn.expr_text(t), 'nodes': n})
    elif unit[0] == 'api-predicates':
        import hpl.ast as A
        from hpl.rewrite import simplify

        cases = [
            ('HplPredicateExpression(True)', lambda: A.HplPredicateExpression(A.HplLiteral.true()), 'ptrue'),
            ('HplPredicateExpression(False)', lambda: A.HplPredicateExpression(A.HplLiteral.false()), 'pfalse'),
            ('{ @flag } with @flag := False', lambda: impl.parser('pred').parse('{ @flag }').replace_var_reference('flag', A.HplLiteral.false()), 'pfalse'),
            ('{ @flag } with @flag := True', lambda: impl.parser('pred').parse('{ @flag }').replace_var_reference('flag', A.HplLiteral.true()), 'ptrue'),
            ('{ not @flag } with @flag := True', lambda: impl.parser('pred').parse('{ not @flag }').replace_var_reference('flag', A.HplLiteral.true()), 'pfalse'),
            ('{ p }.but(expression=True)', lambda: impl.parser('pred').parse('{ p }').but(expression=A.HplLiteral.true()), 'ptrue'),
            ('negate of HplPredicateExpression(True)', lambda: A.HplPredicateExpression(A.HplLiteral.true()).negate(), 'pfalse'),
        ]
        for label, make, want in cases:
            r.count('evaluations')
            r.count('states')
            r.count('transitions')
            try:
                res = simplify(make())
                got = absyn.lift(res)[0]
            except Exception as e:  # noqa: BLE001
                got = 'raised ' + type(e).__name__
            r.outcomes['api-predicate:' + str(got)] += 1
            if got != want:
                r.violation('predicate: a literal condition does not become the vacuous predicate [built through the API]', {'api_predicate': label}, f'simplify({label}) gave {got}, expected {want}', size=len(label))
        r.count('validated', len(cases))
    else:
        _, tier, k, shards = unit
        fam = families(tier)
        for i, t in enumerate(fam):
            if i % shards != k:
                continue
            _process(t, 'B' if _is_bool(t) else 'N', tier, r)
            if i % 1009 == 0:
                r.sample({'family_term': absyn.expr_text(t)})
    return r


def replay(w):
    if 'api_predicate' in w:
        return [{'sig': v['sig'], 'detail': v['detail']} for v in run(('api-predicates', 'quick')).violations]
    t = _detuple(w['term'])
    out = []
    for tier in ('thorough',):
        for kind, detail in check_term(t, w['sort'], tier, None):
            out.append({'sig': kind, 'detail': detail})
    return out


def _detuple(x):
    if isinstance(x, list):
        return tuple(_detuple(y) for y in x)
    return x


def describe(tier):
    b = bounds(tier)
    return {
        'rule': f"every Bool/Num term with <= {b['nodes']} nodes over fields x y @A.x p q xs, literals 0 1 2 True False, all 16 binary and 2 unary operators, abs, sets (1-3 elements), ranges (4 bracket forms), both quantifiers over arrays/sets/ranges, plus 8 shape-directed families (aggregates over sets/ranges, regrouping chains, comparison-with-own-operand, nested equalities, duplicate-member chains, foldable sets, numeric function folding, a compound operand next to its own negation) and 7 API-built predicates with literal conditions, power laws (towers, products, quotients of powers with literal exponents 2 3 0.5 1.5 -1 -2 1 0 4 over 4 bases, roots of powers); each x all valuations over numbers {{-1,0,1,2}}, booleans, arrays {{[],[0],[1,2],[1,1]}}; x set-iteration orders with <= {b['set_order_deviations']} deviating calls. A state = one term (distinct by construction); a transition = one real simplify call; validated = terms whose simplify result was compared with the reference evaluator on every valuation.",
        'bounds': b,
        'exhaustive': True,
        'assumptions': [
            'reference evaluator readings: exact rationals or python floats; set literal as set or bag; range aggregates over integer points; strict connectives',
            'values outside the grid (large magnitudes, non-integer range bounds, non-finite fields) are not explored',
        ],
    }
