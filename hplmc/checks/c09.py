"""C09 - split_and returns an equivalent list of indivisible conjuncts.

Universe: every boolean term of the propositional + quantifier fragment
(hplmc.boolfrag) up to the node bound, x complete truth tables of its atoms x
number grid {-1,0,1} x array domains {[], [0], [0,1]} (the empty domain is what
the `len(d) = 0 or p` guard is for).
"""

from __future__ import annotations

import json

from hplmc import absyn, boolfrag, impl
from hplmc.core import Result
from hplmc.ref import eval as E
from hplmc.universe import NAME_SORT, slots, valuations

ID = 'C09'
NSHARD = 32
WRAP_NODES = 5  # terms up to this size are also wrapped in chains of negations


def bounds(tier):
    if tier == 'quick':
        return {'nodes_with_quantifiers': 6, 'nodes_propositional': 6}
    return {'nodes_with_quantifiers': 6, 'nodes_propositional': 7}


def plan(tier):
    b = bounds(tier)
    units = [('api', 0, 0, 1)]
    units += [('wide', 0, k, 8) for k in range(8)]
    for n in range(1, b['nodes_with_quantifiers'] + 1):
        sh = 1 if n <= 4 else NSHARD
        units += [('q', n, k, sh) for k in range(sh)]
    for n in range(b['nodes_with_quantifiers'] + 1, b['nodes_propositional'] + 1):
        units += [('p', n, k, NSHARD * 2) for k in range(NSHARD * 2)]
    return units


def _sort_of(slot):
    return NAME_SORT.get(slot[1], 'N')  # an escaped bound variable (i, j) is a number


def shape_problem(t):
    """Independent shape predicate from the statement: returns a description if
    the part is still divisible."""
    if t[0] == 'bin' and t[1] == 'and':
        return 'a conjunction'
    if t[0] == 'un' and t[1] == 'not':
        a = t[2]
        if a[0] == 'bin' and a[1] == 'or':
            return 'a negated disjunction'
        if a[0] == 'bin' and a[1] == 'implies':
            return 'a negated implication'
        if a[0] == 'un' and a[1] == 'not':
            return 'a double negation'
        if a[0] == 'quant' and a[1] == 'exists':
            return 'a negated existential quantifier'
    if t[0] == 'quant' and t[1] == 'forall':
        if t[4][0] == 'bin' and t[4][1] == 'and':
            return 'a universal quantifier over a conjunction'
    return None


def conj(parts):
    if not parts:
        return ('lit', 'True', True)
    t = parts[0]
    for p in parts[1:]:
        t = ('bin', 'and', t, p)
    return t


def equivalent(t_in, t_out, grid, r=None):
    sl = slots(t_in)
    extra = [s for s in slots(t_out) if s not in sl]
    n = 0
    for env in valuations(sl + extra, grid=grid, sort_of=_sort_of):
        n += 1
        vi = E.value(t_in, env)
        if vi[0] == 'undef':
            continue
        vo = E.value(t_out, env)
        if vo[0] != 'ok' or vo[1] is not vi[1]:
            # persists under the other readings?
            ok_somewhere = False
            for cfg in E.READINGS[1:]:
                wi = E.value(t_in, env, cfg)
                wo = E.value(t_out, env, cfg)
                if wi[0] == 'undef' or (wo[0] == 'ok' and wo[1] is wi[1]):
                    ok_somewhere = True
                    break
            if not ok_somewhere:
                return {'env': {(k if isinstance(k, str) else '@' + k[1]): v for k, v in env.items()}, 'input': str(vi), 'output': str(vo)}
    if r is not None:
        r.count('valuations', n)
    return None


def always_false(t, grid):
    for env in valuations(slots(t), grid=grid, sort_of=_sort_of):
        v = E.value(t, env)
        if v[0] == 'ok' and v[1] is True:
            return False
    return True


def has_false_literal(t):
    return any(u == ('lit', 'False', False) for u in E._subexprs(t))


def check_term(t, r=None, as_predicate=True):
    from hpl.rewrite import split_and

    problems = []
    text = absyn.expr_text(t)
    st, ast = impl.try_parse('expr', text)
    if st != 'ok':
        if r is not None:
            r.notes['rejected_by_parser:' + st] += 1
        return problems
    from hpl.types import DataType

    variants = getattr(check_term, 'variants', False)
    # a bare reference parsed as an expression is not yet known to be boolean:
    # the property quantifies over boolean expressions, so narrow it (public API)
    ast = ast.cast(DataType.BOOL)
    t_in = absyn.lift(ast)
    inputs = [('expr', ast)]
    if as_predicate:
        st2, pred = impl.try_parse('pred', '{ ' + text + ' }')
        if st2 == 'ok':
            inputs.append(('pred', pred))
    if variants:
        # the same tree as an equal but not identical object graph: a deep copy, and a rebuild through the
        # constructors with freshly made operator definitions
        import copy

        inputs.append(('expr', copy.deepcopy(ast)))
        try:
            inputs.append(('expr', rebuild_with_fresh_operators(ast)))
        except Exception:  # noqa: BLE001
            pass
    results = []
    for kind, obj in inputs:
        if r is not None:
            r.count('transitions')
        try:
            parts = split_and(obj)
        except ValueError as e:
            if always_false(t_in, boolfrag.GRID) and has_false_literal_after_presplit(t_in):
                if r is not None:
                    r.outcomes['ValueError-unsatisfiable'] += 1
                results.append(('ValueError',))
                continue
            problems.append(('raised ValueError on satisfiable input', f'split_and({text}) raised ValueError: {e}'))
            continue
        except Exception as e:  # noqa: BLE001
            problems.append(('raised ' + type(e).__name__, f'split_and({kind} {text}) raised {type(e).__name__}: {str(e)[:200]}'))
            continue
        if not isinstance(parts, list):
            problems.append(('result is not a list', f'split_and({text}) returned {type(parts).__name__}'))
            continue
        try:
            lifted = [absyn.lift(p, typed=True) for p in parts]
        except absyn.LiftError as e:
            problems.append(('result element is not an expression', str(e)))
            continue
        bad_kind = False
        for lp in lifted:
            if lp[0] != 't':
                problems.append(('result element is not an expression', f'split_and({text}) -> {lp[0]}'))
                bad_kind = True
                break
            if lp[1] != 1:  # BOOL
                problems.append(('part is not boolean-typed', f'split_and({text}): part {absyn.strip_types(lp)} has data_type {lp[1]}'))
        if bad_kind:
            continue
        plain = [absyn.strip_types(lp) for lp in lifted]
        for p in plain:
            sp = shape_problem(p)
            if sp:
                problems.append(('part is ' + sp, f'split_and({text}) returned the part {_txt(p)}'))
        cex = equivalent(t_in, conj(plain), boolfrag.GRID, r)
        if cex:
            problems.append(('not equivalent', f'split_and({text}) = {[_txt(p) for p in plain]}: {json.dumps(cex, default=str)}'))
        results.append(tuple(absyn.canon(p) for p in plain))
        if r is not None:
            r.outcomes[f'parts={min(len(plain), 6)}'] += 1
        # E4, history of length 2: the returned list belongs to the caller (work-list loops pop it empty,
        # others append to it); a second call on the same object must give the same answer again
        n_parts = len(parts)
        parts.clear() if n_parts % 2 else parts.append(obj)
        try:
            again = split_and(obj)
            again_l = tuple(absyn.canon(absyn.strip_types(absyn.lift(p, typed=True))) for p in again)
        except Exception as e:  # noqa: BLE001
            again, again_l = None, ('raised ' + type(e).__name__,)
        if again is parts or again_l != results[-1]:
            problems.append(('a second call after the caller modified the first result gives a different answer', f'split_and({text}) twice: {n_parts} parts, then {len(again_l)}'))
    if len(results) >= 2 and any(x != results[0] for x in results[1:]):
        problems.append(('predicate and condition split differently', f'split_and on {{ {text} }} vs {text}'))
    return problems


def rebuild_with_fresh_operators(e):
    """Structurally equal copy built through the constructors, with operator definitions made afresh
    (equal to the built-in ones, but not the same objects)."""
    import hpl.ast as A
    from hpl.ast.expressions import BinaryOperatorDefinition as B, UnaryOperatorDefinition as U

    fresh_bin = {'and': B.conjunction, 'or': B.disjunction, 'implies': B.implication, 'iff': B.equivalence, '=': B.equality, '!=': B.inequality,
                 '<': B.less_than, '<=': B.less_than_eq, '>': B.greater_than, '>=': B.greater_than_eq, 'in': B.inclusion,
                 '+': B.addition, '-': B.subtraction, '*': B.multiplication, '/': B.division, '**': B.power}
    n = type(e).__name__
    if n == 'HplBinaryOperator':
        return A.HplBinaryOperator(fresh_bin[e.operator.token](), rebuild_with_fresh_operators(e.operand1), rebuild_with_fresh_operators(e.operand2))
    if n == 'HplUnaryOperator':
        op = U.negation() if e.operator.token == 'not' else U.minus()
        return A.HplUnaryOperator(op, rebuild_with_fresh_operators(e.operand))
    if n == 'HplQuantifier':
        return A.HplQuantifier(e.quantifier, e.variable, rebuild_with_fresh_operators(e.domain), rebuild_with_fresh_operators(e.condition))
    return e


def has_false_literal_after_presplit(t):
    """ValueError is legitimate only when a literally false conjunct appears:
    the literal False reachable through the documented pre-split
    transformations (conjunctions, negated disjunctions / implications, double
    negations)."""

    def conjuncts(t, neg=False):
        # yields (term, negated) conjuncts reachable by and-splitting
        if not neg:
            if t[0] == 'bin' and t[1] == 'and':
                yield from conjuncts(t[2])
                yield from conjuncts(t[3])
            elif t[0] == 'un' and t[1] == 'not':
                yield from conjuncts(t[2], True)
            else:
                yield (t, False)
        else:
            if t[0] == 'bin' and t[1] == 'or':
                yield from conjuncts(t[2], True)
                yield from conjuncts(t[3], True)
            elif t[0] == 'bin' and t[1] == 'implies':
                yield from conjuncts(t[2])
                yield from conjuncts(t[3], True)
            elif t[0] == 'un' and t[1] == 'not':
                yield from conjuncts(t[2])
            else:
                yield (t, True)

    for c, neg in conjuncts(t):
        if not neg and c == ('lit', 'False', False):
            return True
    # quantified bodies may also expose a False conjunct (forall i: ... and False)
    return has_false_literal(t)


def _txt(t):
    try:
        return absyn.expr_text(t)
    except Exception:  # noqa: BLE001
        return repr(t)


def signature(t, kind):
    from hplmc.checks.c08 import generalise

    # smallest failing sub-term of boolean sort
    def fails(u):
        try:
            return kind in [p[0] for p in check_term(u, None, as_predicate=False)]
        except Exception:  # noqa: BLE001
            return False

    cur = t
    changed = True
    while changed:
        changed = False
        for u in _bool_children(cur):
            if fails(u):
                cur = u
                changed = True
                break
    return f'{kind}: split_and({_txt(generalise(cur))})'


def _bool_children(t):
    if t[0] == 'un' and t[1] == 'not':
        return [t[2]]
    if t[0] == 'bin' and t[1] in ('and', 'or', 'implies', 'iff'):
        return [t[2], t[3]]
    return []


def api_cases():
    """Conjunctions built through the constructors that the parser cannot produce: conjuncts that are
    different but print alike (a string literal made with HplLiteral.string has no quotes in its token)."""
    import hpl.ast as A

    this = A.HplThisMessage()
    state, idle = A.HplFieldAccess(this, 'state'), A.HplFieldAccess(this, 'idle')
    lit = A.HplLiteral.string('idle')
    a = A.HplBinaryOperator('=', state, idle)
    b = A.HplBinaryOperator('=', A.HplFieldAccess(this, 'state'), lit)
    yield 'state = <field idle> and state = <string literal printed as idle>', A.And(a, b), {'state': ('"idle"', 'idle', '"busy"'), 'idle': ('"idle"', 'idle', '"busy"')}
    yield 'not (state != <field idle> or state != <literal idle>)', A.Not(A.Or(A.HplBinaryOperator('!=', state, idle), A.HplBinaryOperator('!=', A.HplFieldAccess(this, 'state'), lit))), {'state': ('"idle"', 'idle', '"busy"'), 'idle': ('"idle"', 'idle', '"busy"')}
    n1, n1f = A.HplLiteral('1', 1), A.HplLiteral('1', 1.0)
    x = A.HplFieldAccess(this, 'x')
    yield 'x > <int 1> and x > <float written 1>', A.And(A.HplBinaryOperator('>', x, n1), A.HplBinaryOperator('>=', A.HplFieldAccess(this, 'x'), n1f)), {'x': (0, 1, 2)}


def run_api(r):
    from itertools import product

    from hpl.rewrite import split_and

    for label, obj, grid in api_cases():
        r.count('evaluations')
        r.count('states')
        r.count('transitions')
        t_in = absyn.lift(obj)
        try:
            parts = [absyn.lift(p) for p in split_and(obj)]
        except Exception as e:  # noqa: BLE001
            r.violation('raised ' + type(e).__name__ + ' [API-built conjunction]', {'api': label}, f'split_and({label}) raised {type(e).__name__}: {e}', size=1)
            continue
        names = sorted(grid)
        for combo in product(*[grid[n_] for n_ in names]):
            env = {'this': dict(zip(names, combo))}
            vi = E.value(t_in, env)
            vo = E.value(conj(parts), env)
            if vi[0] == 'ok' and (vo[0] != 'ok' or vo[1] is not vi[1]):
                r.violation('not equivalent [API-built conjunction of look-alike conjuncts]', {'api': label}, f'split_and({label}) = {parts}: {env} gives {vi} vs {vo}', size=1)
                break
    r.count('validated', r.counters['evaluations'])


def wide_bodies():
    """Quantifiers (plain and negated, both kinds, 3 domains) over and / or / implies chains of 3 and 4 members in
    both nestings - more nodes than the general bound allows - plus such chains at the top with a quantifier member."""
    from itertools import product

    from hplmc.universe import num, this_field as tf

    V = ('var', 'i')
    atoms = [('bin', '>', V, num(0)), boolfrag.P, ('bin', '>', ('index', tf('ys'), V), num(0)), ('un', 'not', boolfrag.Q), ('bin', '<', V, num(1))]
    doms = [tf('xs'), ('set', (num(0), num(1))), ('range', num(1), num(1), True, True)]
    out = []
    for w in (3, 4):
        for members in product(range(len(atoms)), repeat=w):
            if len(set(members)) < w or not any(m in (0, 2, 4) for m in members):
                continue
            if w == 4 and members[0] > members[1]:
                continue  # thin the 4-chains (order of the first two members)
            ms = [atoms[m] for m in members]
            for op in ('and', 'or') if w == 4 else ('and', 'or', 'implies'):
                left = ms[0]
                for m in ms[1:]:
                    left = ('bin', op, left, m)
                right = ms[-1]
                for m in reversed(ms[:-1]):
                    right = ('bin', op, m, right)
                for body in (left, right):
                    for q in ('forall', 'exists'):
                        for d in doms[:2] if w == 4 else doms:
                            t = ('quant', q, 'i', d, body)
                            out.append(t)
                            out.append(('un', 'not', t))
                            if w == 3 and d is doms[0]:
                                out.append(('bin', 'and', boolfrag.R, t))
                                out.append(('un', 'not', ('bin', 'or', boolfrag.R, ('un', 'not', t))))
    return out


def run(unit):
    kind, n, k, shards = unit
    r = Result()
    if kind == 'api':
        run_api(r)
        return r
    if kind == 'wide':
        for i, t in enumerate(wide_bodies()):
            if i % shards != k:
                continue
            r.count('evaluations')
            r.count('states')
            for pk, d in check_term(t, r):
                r.violation(pk + ' [quantifier over a chain of 3-4 members]', {'term': t, 'text': _txt(t)}, d, size=absyn.size(t))
            r.count('validated')
        r.sample({'wide_body': 'forall i in xs: ((@i > 0) and p and (ys[@i] > 0))'})
        return r
    g = boolfrag.grammar(False, quantifiers=(kind == 'q'))
    for i, t in enumerate(g.stream('B', n)):
        if i % shards != k:
            continue
        r.count('evaluations')
        r.count('states')
        check_term.variants = n <= 4
        probs = [(t, pk, d) for pk, d in check_term(t, r)]
        check_term.variants = False
        r.count('validated')
        if n <= WRAP_NODES:
            # shape family: chains of 2..4 negations directly above every small term
            w = t
            for depth in (1, 2, 3, 4):
                w = ('un', 'not', w)
                if depth >= 2:
                    r.count('evaluations')
                    r.count('states')
                    probs += [(w, pk, d) for pk, d in check_term(w, r)]
        for tt, pk, detail in probs:
            r.violation(signature(tt, pk), {'term': tt, 'text': _txt(tt)}, detail, size=absyn.size(tt))
        if i % 4001 == 0:
            r.sample({'term': _txt(t), 'nodes': n})
    return r


def replay(w):
    from hplmc.checks.c08 import _detuple

    if 'api' in w:
        r = Result()
        run_api(r)
        return [{'sig': v['sig'], 'detail': v['detail']} for v in r.violations]
    check_term.variants = True
    return [{'sig': k, 'detail': d} for k, d in check_term(_detuple(w['term']), None)]


def describe(tier):
    b = bounds(tier)
    return {
        'rule': f"every boolean term over atoms p q r (x > 0) (y = 1) True False with not/and/or/implies/iff and forall/exists @i over xs, {{0, 1}}, [0 to 1] (bodies use (@i > 0), nested (@i < @j)) with <= {b['nodes_with_quantifiers']} nodes, and the quantifier-free part up to {b['nodes_propositional']} nodes; x every valuation (complete truth tables; numbers -1 0 1; arrays [] [0] [0,1]). Every term with <= 5 nodes is also checked under chains of 2, 3 and 4 negations. Each term is split both as an expression and as a predicate; terms with <= 4 nodes also as a deep copy and as a rebuild through the constructors with freshly made (equal, not identical) operator definitions; plus three API-built conjunctions of conjuncts that differ but print alike. Plus quantifiers (plain and negated, both kinds, 3 domains) over and / or / implies chains of 3 and 4 members in both nestings. After every successful call the returned list is modified in place (emptied or appended to) and split_and is called again on the same object: same answer, fresh list. A state = one term; a transition = one real split_and call.",
        'bounds': b,
        'exhaustive': True,
        'assumptions': ['reference evaluator; strict connectives; ValueError accepted only if the input is false on the whole grid and contains a literal False'],
    }
