"""C10 - refactor_reference isolates the alias-dependent part without changing meaning.

Universe: every boolean term of hplmc.boolfrag with alias atoms (@A.p,
@A.x > 0, @A.x > @i, @B.p, domain @A.xs) up to the node bound x all
valuations (incl. empty quantifier domains); refactored for alias A, alias B and
an absent alias, as expression and as predicate.
"""

from __future__ import annotations

import json

from hplmc import absyn, boolfrag, impl
from hplmc.checks.c09 import _sort_of, _txt, conj, equivalent
from hplmc.core import Result

ID = 'C10'
NSHARD = 48


def bounds(tier):
    return {'nodes': 5 if tier == 'quick' else 6}


def plan(tier):
    units = []
    for n in range(1, bounds(tier)['nodes'] + 1):
        sh = 1 if n <= 4 else NSHARD
        units += [(n, k, sh) for k in range(sh)]
    units += [('wide', k, 16) for k in range(16)]
    return units


def wide_bodies():
    """Quantifiers (plain and negated, both kinds) whose body is a connective (plain and negated) over 2-3 members with
    alias atoms among them - one node or more beyond the general bound: the shapes the De Morgan and distribution
    steps of the alias split work on."""
    from itertools import permutations

    from hplmc.universe import alias_field, num, this_field as tf

    V = ('var', 'i')
    atoms = [('bin', '>', V, num(0)), boolfrag.P, ('bin', '>', alias_field('A', 'x'), V), boolfrag.AP, boolfrag.BP, ('bin', '>', alias_field('A', 'x'), num(0))]
    doms = [tf('xs'), ('set', (num(0), num(1)))]
    out = []
    for w in (2, 3):
        for members in permutations(range(len(atoms)), w):
            if not any(m in (2, 3, 5) for m in members) or not any(m in (0, 2) for m in members):
                continue  # mentions @A and uses the bound variable
            if w == 3 and members[0] > members[2]:
                continue
            ms = [atoms[m] for m in members]
            for op in ('and', 'or', 'implies') if w == 2 else ('and', 'or'):
                body = ms[0]
                for m in ms[1:]:
                    body = ('bin', op, body, m)
                bodies = [body, ('un', 'not', body)]
                if w == 3:
                    right = ('bin', op, ms[0], ('bin', op, ms[1], ms[2]))
                    bodies += [right, ('un', 'not', right)]
                for bd in bodies:
                    for q in ('forall', 'exists'):
                        for d in doms:
                            t = ('quant', q, 'i', d, bd)
                            out.append(t)
                            out.append(('un', 'not', t))
    # directly nested quantifiers (all four kind pairs) whose inner domain may be built from the outer variable, over a
    # conjunction / disjunction of two members of which exactly one or both mention @A: the outer variable may occur
    # in the inner domain only, and a member that is hoisted out of a quantifier must not take a bound variable along
    W = ('var', 'j')
    natoms = [('bin', '>', W, num(0)), ('bin', '>', W, V), ('bin', '>', alias_field('A', 'x'), W), ('bin', '>', alias_field('A', 'x'), V), boolfrag.AP, boolfrag.P, ('bin', '>', W, tf('x'))]
    inner_doms = [('range', num(0), V, False, False), ('set', (V, num(1))), tf('xs'), ('set', (num(0), num(1)))]
    for m1, m2 in permutations(range(len(natoms)), 2):
        if not any(m in (2, 3, 4) for m in (m1, m2)) or not any(m in (0, 1, 2, 6) for m in (m1, m2)):
            continue  # mentions @A and uses the inner variable
        for di, d2 in enumerate(inner_doms):
            if di >= 2 and not any(m in (1, 3) for m in (m1, m2)):
                continue  # the outer variable must be used: in the inner domain or in the body
            for op in ('and', 'or'):
                for q1 in ('forall', 'exists'):
                    for q2 in ('forall', 'exists'):
                        out.append(('quant', q1, 'i', doms[(m1 + di) % 2], ('quant', q2, 'j', d2, ('bin', op, natoms[m1], natoms[m2]))))
    return out


def free_vars(t, bound=()):
    out = set()
    if t[0] == 'var':
        if t[1] not in bound:
            out.add(t[1])
        return out
    if t[0] == 'quant':
        out |= free_vars(t[3], bound)
        out |= free_vars(t[4], bound + (t[2],))
        return out
    for x in t[1:]:
        if isinstance(x, tuple):
            if x and isinstance(x[0], str):
                out |= free_vars(x, bound)
            else:
                for y in x:
                    if isinstance(y, tuple):
                        out |= free_vars(y, bound)
    return out


def rename_vars(t, mapping):
    """The term with variables (aliases and bound variables alike) renamed."""
    if not isinstance(t, tuple):
        return t
    if t and t[0] == 'var':
        return ('var', mapping.get(t[1], t[1]))
    if t and t[0] == 'quant':
        return ('quant', t[1], mapping.get(t[2], t[2]), rename_vars(t[3], mapping), rename_vars(t[4], mapping))
    return tuple(rename_vars(x, mapping) for x in t)


def mentions(t, alias):
    if t[0] == 'var':
        return t[1] == alias
    for x in t[1:]:
        if isinstance(x, tuple):
            if x and isinstance(x[0], str):
                if mentions(x, alias):
                    return True
            else:
                for y in x:
                    if isinstance(y, tuple) and mentions(y, alias):
                        return True
    return False


def _cond(lp):
    """Condition of a lifted predicate / expression."""
    if lp[0] == 'pred':
        return lp[1]
    if lp[0] == 'ptrue':
        return ('lit', 'True', True)
    if lp[0] == 'pfalse':
        return ('lit', 'False', False)
    return lp


def check_term(t, r=None):
    from hpl.rewrite import refactor_reference
    from hpl.types import DataType

    problems = []
    text = absyn.expr_text(t)
    st, ast = impl.try_parse('expr', text)
    if st != 'ok':
        if r is not None:
            r.notes['rejected_by_parser:' + st] += 1
        return problems
    ast = ast.cast(DataType.BOOL)
    inputs = [('expr', ast)]
    st2, pred = impl.try_parse('pred', '{ ' + text + ' }')
    if st2 == 'ok':
        inputs.append(('pred', pred))
    for kind, obj in inputs:
        lin = absyn.lift(obj)
        t_in = _cond(lin)
        fv_in = free_vars(t_in)
        for alias in getattr(check_term, 'aliases', ('A', 'B', 'C')):
            if r is not None:
                r.count('transitions')
            try:
                res = refactor_reference(obj, alias)
            except Exception as e:  # noqa: BLE001
                problems.append(('raised ' + type(e).__name__, f'refactor_reference({kind} {text}, {alias}) raised {type(e).__name__}: {str(e)[:200]}'))
                continue
            if not isinstance(res, tuple) or len(res) != 2:
                problems.append(('result is not a pair', f'refactor_reference({text}, {alias}) returned {type(res).__name__}'))
                continue
            try:
                l1, l2 = absyn.lift(res[0]), absyn.lift(res[1])
            except absyn.LiftError as e:
                problems.append(('result is not an AST', str(e)))
                continue
            ispred = [x[0] in ('pred', 'ptrue', 'pfalse') for x in (l1, l2)]
            if ispred != [kind == 'pred'] * 2:
                problems.append(('result kind differs from input kind', f'refactor_reference({kind} {text}, {alias}) -> ({l1[0]}, {l2[0]})'))
                continue
            f1, f2 = _cond(l1), _cond(l2)
            where = f'refactor_reference({kind} {text}, {alias}) = ({_txt(f1)} ; {_txt(f2)})'
            if mentions(f1, alias):
                problems.append(('first half still mentions the alias', where))
            esc = (free_vars(f1) | free_vars(f2)) - fv_in
            if esc:
                problems.append(('bound variable escapes', where + f' free: {sorted(esc)}'))
            if not mentions(t_in, alias):
                # expressions: the very same object; predicates are re-wrapped by the
                # implementation, so "f itself (unchanged)" is read as an equal,
                # identically typed predicate around the same condition
                same = res[0] is obj if kind == 'expr' else (
                    absyn.canon(absyn.lift(res[0], typed=True)) == absyn.canon(absyn.lift(obj, typed=True))
                    and (l1[0] != 'pred' or res[0].expression is obj.expression)
                )
                if not same:
                    problems.append(('alias absent but first half is not the input itself', where))
                exp2 = ('ptrue',) if kind == 'pred' else ('lit', 'True', True)
                if l2 != exp2:
                    problems.append(('alias absent but second half is not True', where))
            cex = equivalent(t_in, conj([f1, f2]), boolfrag.GRID, r)
            if cex:
                problems.append(('not equivalent', where + ': ' + json.dumps(cex, default=str)))
            if r is not None:
                r.outcomes[('moved-all' if f1 == ('lit', 'True', True) else 'kept-all' if f2 == ('lit', 'True', True) else 'split')] += 1
        # E4 depth 2: objects derived from the (now queried and refactored) one must be judged on their own
        if getattr(check_term, 'derive', False) and mentions(t_in, 'A'):
            from hpl.rewrite import replace_this_with_var, replace_var_with_this

            for dlabel, make, alias in (
                ('replace_var_with_this(A)', lambda: replace_var_with_this(obj, 'A'), 'A'),       # the copy no longer mentions A
                ('replace_this_with_var(C)', lambda: replace_this_with_var(obj, 'C'), 'C'),       # the copy now mentions C
            ):
                try:
                    d = make()
                except Exception:  # noqa: BLE001
                    continue
                if r is not None:
                    r.count('transitions', 2)
                ld = _cond(absyn.lift(d))
                try:
                    res = refactor_reference(d, alias)
                    g1, g2 = _cond(absyn.lift(res[0])), _cond(absyn.lift(res[1]))
                except Exception as e:  # noqa: BLE001
                    problems.append(('raised ' + type(e).__name__ + ' (object derived from a refactored one)', f'refactor_reference({dlabel} of {kind} {text}, {alias}): {str(e)[:160]}'))
                    continue
                where = f'refactor_reference({dlabel} of {kind} {text}, {alias}) = ({_txt(g1)} ; {_txt(g2)})'
                if mentions(g1, alias):
                    problems.append(('first half still mentions the alias (object derived from a refactored one)', where))
                if not mentions(ld, alias) and g2 != ('lit', 'True', True):
                    problems.append(('alias absent but second half is not True (object derived from a refactored one)', where))
                cex = equivalent(ld, conj([g1, g2]), boolfrag.GRID, r)
                if cex:
                    problems.append(('not equivalent (object derived from a refactored one)', where + ': ' + json.dumps(cex, default=str)))
    return problems


def signature(t, kind):
    from hplmc.checks.c08 import generalise
    from hplmc.checks.c09 import _bool_children

    def fails(u):
        try:
            return kind in [p[0] for p in check_term(u, None)]
        except Exception:  # noqa: BLE001
            return False

    cur = t
    changed = True
    while changed:
        changed = False
        for u in _bool_children(cur):
            if fails(u):
                cur = u
                changed = True
                break
    return f'{kind}: refactor_reference({_txt(generalise(cur))})'


def run(unit):
    if unit[0] == 'wide':
        _, k, shards = unit
        r = Result()
        for i, t in enumerate(wide_bodies()):
            if i % shards != k:
                continue
            r.count('evaluations')
            r.count('states')
            r.count('nontrivial')
            seen = set()
            for pk, detail in check_term(t, r):
                if pk in seen:
                    continue
                seen.add(pk)
                r.violation(pk + ' [quantifier over a connective of 2-3 members]', {'term': t, 'text': _txt(t)}, detail, size=absyn.size(t))
            r.count('validated')
        r.sample({'wide_body': 'forall i in xs: not ((@i > 0) or (@A.x > @i))'})
        return r
    n, k, shards = unit
    r = Result()
    g = boolfrag.grammar(True, quantifiers=True)
    for i, t in enumerate(g.stream('B', n)):
        if i % shards != k:
            continue
        r.count('evaluations')
        r.count('states')
        check_term.derive = n <= 4
        probs = [(t, pk, d) for pk, d in check_term(t, r)]
        check_term.derive = False
        r.count('validated')
        if mentions(t, 'A'):
            r.count('nontrivial')
            if n <= 4:
                # shape family: chains of 2..4 negations directly above every small term that mentions the alias
                w = t
                for depth in (1, 2, 3, 4):
                    w = ('un', 'not', w)
                    if depth >= 2:
                        r.count('evaluations')
                        r.count('states')
                        probs += [(w, pk, d) for pk, d in check_term(w, r)]
        if n <= 4 and (mentions(t, 'A') or mentions(t, 'B')):
            # name family: aliases and bound variables whose names are suffixes / prefixes of one another
            for mapping, aliases in (({'A': 'AB'}, ('B', 'AB', 'A')), ({'A': 'BA'}, ('B', 'BA', 'A')), ({'B': 'xB', 'i': 'iA'}, ('A', 'B', 'xB', 'x')), ({'A': 'i_A', 'i': 'A_i'}, ('A', 'i_A', 'i'))):
                w = rename_vars(t, mapping)
                check_term.aliases = aliases
                try:
                    r.count('evaluations')
                    r.count('states')
                    probs += [(w, pk + ' [names that are suffixes / prefixes of one another]', d) for pk, d in check_term(w, r)]
                finally:
                    del check_term.aliases
        seen = set()
        for tt, pk, detail in probs:
            if (pk, tt is t) in seen:
                continue
            seen.add((pk, tt is t))
            r.violation(signature(tt, pk), {'term': tt, 'text': _txt(tt)}, detail, size=absyn.size(tt))
        if i % 9001 == 0:
            r.sample({'term': _txt(t), 'nodes': n})
    return r


def replay(w):
    from hplmc.checks.c08 import _detuple

    check_term.derive = True
    return [{'sig': k, 'detail': d} for k, d in check_term(_detuple(w['term']), None)]


def describe(tier):
    b = bounds(tier)
    return {
        'rule': f"every boolean term over atoms p q r (x > 0) (y = 1) True False @A.p (@A.x > 0) @B.p with not/and/or/implies/iff and forall/exists @i over xs, {{0,1}}, [0 to 1], @A.xs (bodies may use (@i > 0), (@A.x > @i)) with <= {b['nodes']} nodes; every term with <= 4 nodes that mentions @A also under chains of 2, 3 and 4 negations; for terms with <= 4 nodes the copies made by replace_var_with_this(A) / replace_this_with_var(C) of the already refactored object are refactored too (histories of depth 2); each refactored for aliases A, B and the absent C, as expression and as predicate; x every valuation (truth tables, numbers -1 0 1, arrays [] [0] [0,1]). Terms with <= 4 nodes that mention an alias are also refactored under 4 renamings that make alias and bound-variable names suffixes / prefixes of one another (AB / B, BA / B, xB and iA, i_A and A_i), for each of the related names. Plus quantifiers (plain and negated, both kinds, 2 domains) over plain and negated and / or / implies of 2-3 members that mention @A and the bound variable. Plus directly nested quantifiers (4 kind pairs) whose inner domain is [0 to @i], {{@i, 1}}, xs or {{0, 1}} over and / or of two of 7 members (one or both mention @A). nontrivial = terms mentioning @A.",
        'bounds': b,
        'exhaustive': True,
        'assumptions': ['reference evaluator; strict connectives'],
    }
