"""C11 - canonical_form is an exact, order-stable decomposition.

Universe: every scope kind x pattern kind x disjunction width 1..W in each
event position (complete), x decoration menu (plain / predicates / aliases
bound on every alternative and referenced later / aliases bound on one
alternative only) x time bound x metadata x construction route (parser, API
right-nested, API left-nested); canonical_form re-applied to every output
(BFS depth 2).
"""

from __future__ import annotations

from hplmc import absyn, impl, props
from hplmc.core import Result, chunks
from hplmc.props import INF, alternatives, disj, ev, get_event, with_event

ID = 'C11'
PARTIAL = 'canonical_form raised HplSanityError: a later event refers to an alias that only some alternatives of the split disjunction bind'


def bounds(tier):
    return {'max_width': 3 if tier == 'quick' else 4}


DECOS = ('plain', 'preds', 'alias_act', 'alias_first', 'partial_act', 'partial_first', 'false_first', 'false_last')


def decorate(sk, pk, widths, deco):
    """Build the abstract property for a skeleton + decoration, or None if the
    decoration does not apply."""
    pos = props.positions(sk, pk)
    chain = props.binding_chain(pk)
    refs = {}  # position -> alias referenced by every alternative
    alias = {}  # position -> (alias name, on which alternatives: 'all' | 'first')
    if deco in ('plain', 'preds', 'false_first', 'false_last'):
        pass
    elif deco in ('alias_act', 'partial_act'):
        if 'act' not in pos:
            return None
        if deco == 'partial_act' and widths['act'] < 2:
            return None
        alias['act'] = ('M', 'all' if deco == 'alias_act' else 'first')
        for p in pos:
            if p != 'act':
                refs[p] = 'M'
    else:
        if len(chain) < 2:
            return None
        if deco == 'partial_first' and widths[chain[0]] < 2:
            return None
        alias[chain[0]] = ('N', 'all' if deco == 'alias_first' else 'first')
        refs[chain[1]] = 'N'
    evs = {}
    for p in pos:
        alts = []
        for j in range(widths[p]):
            al = None
            if p in alias and (alias[p][1] == 'all' or j == 0):
                al = alias[p][0]
            if p in refs:
                pred = props.alias_eq(refs[p])
            elif deco == 'preds':
                pred = props.field_gt('x', j)
            elif deco == 'false_first':
                # an alternative whose predicate is the literal False (or True) is an alternative like any other
                pred = ('pfalse',) if j == 0 else props.field_gt('x', j)
            elif deco == 'false_last':
                pred = ('pfalse',) if j == widths[p] - 1 else props.PTRUE
            else:
                pred = props.PTRUE
            alts.append(ev(f'{props.TOPIC_PREFIX[p]}{j + 1}', al, pred))
        evs[p] = alts
    return evs


def plan(tier):
    b = bounds(tier)
    sk = list(props.width_skeletons(b['max_width']))
    return [('skel', tier, c) for c in chunks(sk, 64)]


def split_position(pk):
    return props.SPLIT_POSITION[pk]


def partial_alias(lp):
    """Independent classification: is some alias bound on some-but-not-all
    alternatives of the activator / split event and referenced by another event?"""
    from hplmc.checks.c10 import mentions

    pk = lp[2][1]
    for pos in ('act', split_position(pk)):
        if pos is None:
            continue
        e = get_event(lp, pos)
        alts = alternatives(e)
        if len(alts) < 2:
            continue
        names = {a[2] for a in alts if a[2]}
        for name in names:
            if all(a[2] == name for a in alts):
                continue
            for other in ('act', 'term', 'trig', 'beh'):
                if other == pos:
                    continue
                oe = get_event(lp, other)
                for a in alternatives(oe):
                    if a[3][0] == 'pred' and mentions(a[3][1], name):
                        return True
    return False


def check_property(prop, route, r=None):
    """All obligations of C11 on one real property object."""
    from hpl.rewrite import canonical_form

    problems = []
    lp = absyn.lift(prop)
    meta_before = dict(prop.metadata)
    if r is not None:
        r.count('transitions')
    try:
        out = canonical_form(prop)
    except Exception as e:  # noqa: BLE001
        name = type(e).__name__
        if name == 'HplSanityError' and partial_alias(lp):
            return [(PARTIAL, f'{absyn.property_text(lp)}: {str(e)[:160]}')]
        return [('raised ' + name, f'canonical_form({absyn.property_text(lp)}) [{route}] raised {name}: {str(e)[:200]}')]
    if not isinstance(out, list) or not out:
        return [('result is not a non-empty list', repr(out)[:200])]
    pk = lp[2][1]
    sp = split_position(pk)
    acts = alternatives(get_event(lp, 'act')) or [None]
    splits = alternatives(get_event(lp, sp)) if sp else [None]
    where = f'canonical_form({absyn.property_text(lp)}) [{route}]'
    if len(acts) == 1 and len(splits) == 1:
        if len(out) != 1 or out[0] is not prop:
            problems.append(('no disjunction to split but the result is not [property]', where))
        return problems
    expected = []
    for a in acts:
        for s in splits:
            q = lp
            if a is not None:
                q = with_event(q, 'act', a)
            if s is not None:
                q = with_event(q, sp, s)
            expected.append(q)
    got = []
    for o in out:
        try:
            got.append(absyn.lift(o))
        except absyn.LiftError:
            got.append(('not-a-property', type(o).__name__))
    if r is not None:
        r.outcomes[f'{len(acts)}x{len(splits)}'] += 1
    if [absyn.canon(g) for g in got] != [absyn.canon(e) for e in expected]:
        if len(got) != len(expected):
            kind = f'wrong number of outputs'
        elif sorted(map(repr, map(absyn.canon, got))) == sorted(map(repr, map(absyn.canon, expected))):
            kind = 'outputs in the wrong order'
        else:
            kind = 'an output differs from the input outside the two split positions (or the wrong position is split)'
        problems.append((kind, where + f' -> {[absyn.property_text(g) if g[0] == "property" else g for g in got]}'))
        return problems
    for o in out:
        if o.metadata != meta_before:
            problems.append(('metadata lost or changed', where + f': {o.metadata!r} vs {meta_before!r}'))
        if o.metadata is prop.metadata:
            problems.append(('metadata dictionary shared with the input', where))
        for o2 in out:
            if o2 is not o and o2.metadata is o.metadata:
                problems.append(('metadata dictionary shared between outputs', where))
        # valid property: constructing it afresh through the API succeeds and gives an equal object
        try:
            fresh = absyn.build(absyn.lift(o))
            if fresh != o or hash(fresh) != hash(o):
                problems.append(('output differs from a fresh construction', where))
        except Exception as e:  # noqa: BLE001
            problems.append(('output is not a valid property', where + f': {type(e).__name__} {e}'))
        # idempotence (BFS depth 2)
        if r is not None:
            r.count('transitions')
        try:
            again = canonical_form(o)
            if not (isinstance(again, list) and len(again) == 1 and again[0] is o):
                problems.append(('canonical_form of an output is not [output]', where))
        except Exception as e:  # noqa: BLE001
            problems.append(('canonical_form of an output raised ' + type(e).__name__, where))
    if dict(prop.metadata) != meta_before:
        problems.append(('input metadata mutated', where))
    # the returned list belongs to the caller: emptying it must not affect a later call
    snapshot = [id(o) for o in out]
    out.clear()
    if r is not None:
        r.count('transitions')
    try:
        again = canonical_form(prop)
        if [absyn.canon(absyn.lift(o)) for o in again] != [absyn.canon(e) for e in expected]:
            problems.append(('a second call after the caller emptied the first result gives a different answer', where + f' -> {len(again)} outputs'))
    except Exception as e:  # noqa: BLE001
        problems.append(('a second call raised ' + type(e).__name__, where))
    return problems


def instances(sk, pk, widths, tier):
    """All (route, real property) for one skeleton."""
    for deco in DECOS:
        evs = decorate(sk, pk, widths, deco)
        if evs is None:
            continue
        for max_t, timetxt in ((INF, None), (0.1, ('100', 'ms'))):
            for meta in ((), (('id', 'p1'), ('title', '"a title"'))):
                for route in ('parser', 'api-right', 'api-left', 'api-min-time'):
                    nest = 'left' if route == 'api-left' else 'right'
                    if route == 'api-left' and all(w < 3 for w in widths.values()):
                        continue  # identical to api-right below width 3
                    if route == 'api-min-time' and (meta or deco != 'plain'):
                        continue
                    p = props.make_property(
                        sk, pk,
                        act=disj(evs['act'], nest) if 'act' in evs else None,
                        term=disj(evs['term'], nest) if 'term' in evs else None,
                        trig=disj(evs['trig'], nest) if 'trig' in evs else None,
                        beh=disj(evs['beh'], nest), max_t=max_t if route != 'api-min-time' else (5.0 if max_t == INF else INF),
                        min_t=0.25 if route == 'api-min-time' else 0.0,
                    )
                    yield deco, route, p, timetxt, meta
                    if route == 'parser' and not meta:
                        # the same property with topic names whose alphabetical order is not the source order
                        yield deco, 'parser', rename_topics(p), timetxt, meta


UNSORTED = {'1': 'zulu', '2': 'mike', '3': 'alfa', '4': 'kilo'}


def rename_topics(t):
    """Topics a1 a2 a3 ... -> a_zulu a_mike a_alfa ...: source order differs from every sorted order."""
    if not isinstance(t, tuple):
        return t
    if t and t[0] == 'event':
        name = t[1]
        return ('event', name[:-1] + '_' + UNSORTED.get(name[-1], name[-1])) + tuple(t[2:])
    return tuple(rename_topics(x) for x in t)


def derive_from_canonicalised(base):
    """A new property made with but() from one whose disjunctions have already been enumerated
    (canonical_form, simple_events, aliases, str): in every disjunction of width >= 2 the first alternative is
    replaced by a fresh event on another topic.  Returns None if nothing can be derived."""
    import hpl.ast as A
    from hpl.rewrite import canonical_form

    try:
        canonical_form(base)
    except Exception:  # noqa: BLE001
        pass
    str(base)
    changed = False

    def swap_first(e, tag):
        nonlocal changed
        if e is None or not e.is_event_disjunction:
            return e
        list(e.simple_events())
        e.aliases()
        first = e.event1
        if first.is_simple_event:
            changed = True
            return e.but(event1=first.but(name='zz' + tag))
        inner = swap_first(first, tag)
        return e.but(event1=inner)

    sc, pt = base.scope, base.pattern
    act, term = swap_first(sc.activator, 'a'), swap_first(sc.terminator, 't')
    if act is not sc.activator:
        sc = sc.but(activator=act)
    if term is not sc.terminator:
        sc = sc.but(terminator=term)
    beh, trig = swap_first(pt.behaviour, 'b'), swap_first(pt.trigger, 'g')
    if beh is not pt.behaviour:
        pt = pt.but(behaviour=beh)
    if trig is not pt.trigger:
        pt = pt.but(trigger=trig)
    if not changed:
        return None
    return base.but(scope=sc, pattern=pt)


def realise(route, p, timetxt, meta):
    if route == 'parser':
        text = absyn.property_text(p, time=timetxt, meta=meta)
        return impl.parser('prop').parse(text)
    obj = absyn.build(p)
    obj.metadata.update({k: (v.strip('"') if k != 'id' else v) for k, v in meta})
    return obj


def run(unit):
    _, tier, skels = unit
    r = Result()
    for sk, pk, widths in skels:
        for deco, route, p, timetxt, meta in instances(sk, pk, widths, tier):
            r.count('evaluations')
            try:
                obj = realise(route, p, timetxt, meta)
            except Exception as e:  # noqa: BLE001
                r.notes[f'construction rejected ({deco}): {type(e).__name__}'] += 1
                continue
            r.count('states')
            probs = check_property(obj, route, r)
            r.count('validated')
            if route == 'parser' and deco in ('plain', 'preds', 'alias_act'):
                # E4 depth 2: a property derived from the (already canonicalised) one
                try:
                    derived = derive_from_canonicalised(obj)
                except Exception as e:  # noqa: BLE001
                    derived = None
                    r.notes[f'derivation rejected: {type(e).__name__}'] += 1
                if derived is not None:
                    r.count('states')
                    probs += [(k + ' (property derived with but() from a canonicalised one)', d) for k, d in check_property(derived, 'derived', r)]
            for kind, detail in probs:
                sig = kind if kind == PARTIAL else f'{kind} [{pk}, deco={deco}]'
                r.violation(sig, {'scope': sk, 'pattern': pk, 'widths': widths, 'deco': deco, 'route': route, 'time': timetxt, 'meta': meta, 'text': absyn.property_text(p, time=timetxt, meta=meta)}, detail,
                            size=sum(widths.values()) * 10 + DECOS.index(deco))
            if len(r.samples) < 2 and sum(widths.values()) >= 4:
                r.sample({'property': absyn.property_text(p, time=timetxt, meta=meta), 'route': route})
    return r


def replay(w):
    p = None
    for deco, route, q, timetxt, meta in instances(w['scope'], w['pattern'], w['widths'], 'thorough'):
        if deco == w['deco'] and route == w['route'] and (timetxt is None) == (w['time'] is None) and len(meta) == len(w['meta']):
            p = (route, q, timetxt, meta)
    if p is None:
        return [{'sig': 'replay: instance not found', 'detail': str(w)}]
    obj = realise(*p)
    return [{'sig': k, 'detail': d} for k, d in check_property(obj, p[0])]


def describe(tier):
    b = bounds(tier)
    return {
        'rule': f"every scope kind x pattern kind x disjunction width 1..{b['max_width']} in each event position (complete) x 8 decorations (plain, predicates, the literal False as the predicate of the first / the last alternative of every event, alias on every activator alternative referenced later, alias on every alternative of the first pattern event referenced by the second, the two partial-alias forms) x time bound (none, 100 ms) x metadata (none, id+title) x route (parser, parser with topic names whose alphabetical order is not the source order, API right-nested, API left-nested); canonical_form applied, compared with the activator-major product computed independently from the lifted input, then re-applied to every output; the returned list is then emptied and canonical_form is called again on the same property. A state = one property object or one output; a transition = one canonical_form call.",
        'bounds': b,
        'exhaustive': True,
        'assumptions': ['lift() reads raw attrs fields; fresh construction through the public constructors defines "valid property"'],
    }
