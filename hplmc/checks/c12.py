"""C12 - splitting a pattern over event alternatives preserves trace semantics.

Universe: properties with a non-disjunctive (or absent) activator x ALL timed
traces up to length L over (mentioned topics + one other topic) x payload
v in {0,1} x inter-arrival gap in {0,1,2} s x end-of-trace slack {0,3} s.
The real canonical_form output is interpreted by the reference trace semantics
(hplmc.ref.trace) under both readings of scope re-activation.
"""

from __future__ import annotations

from itertools import product

from hplmc import absyn, impl, props
from hplmc.core import Result, chunks
from hplmc.props import INF, alternatives, disj, ev, get_event, with_event
from hplmc.ref.trace import Sem
from hplmc.universe import alias_field, num, this_field

ID = 'C12'

V = this_field('v')


def veq(k):
    return ('pred', ('bin', '=', V, num(k)))


def vref(alias):
    return ('pred', ('bin', '=', V, alias_field(alias, 'v')))


def bounds(tier):
    if tier == 'quick':
        return {'trace_len': 3, 'max_width': 3, 'other_width': 2, 'trace_budget': 60000, 'time_bounds_s': (1.0,)}
    return {'trace_len': 5, 'max_width': 3, 'other_width': 2, 'trace_budget': 800000, 'time_bounds_s': (1.0, 2.0)}


SPLIT_TOPICS = ('a', 'b', 'c')
OTHER_TOPICS = ('d', 'f')


def family(tier):
    """Abstract properties (activator simple or absent)."""
    b = bounds(tier)
    out = []
    for sk in props.SCOPES:
        scope_variants = [(None, None, None)]  # (act, term, alias bound by the activator)
        if sk == 'after':
            scope_variants = [(ev('s'), None, None), (ev('s', 'S'), None, 'S')]
        elif sk == 'until':
            scope_variants = [(None, ev('e'), None), (None, ev('e', None, veq(1)), None), (None, disj([ev('e'), ev('g')]), None)]
        elif sk == 'after_until':
            scope_variants = [(ev('s'), ev('e'), None), (ev('s', 'S'), ev('e', None, vref('S')), 'S'), (ev('s'), disj([ev('e'), ev('g', None, veq(1))]), None)]
        for act, term, salias in scope_variants:
            for pk in props.PATTERNS:
                sp = props.SPLIT_POSITION[pk]
                two = pk in props.TWO_EVENT
                other_pos = None
                if two:
                    other_pos = 'trig' if sp == 'beh' else 'beh'
                # the position canonical_form splits; for existence nothing is split but we still
                # put a disjunction in the behaviour to check that it is left alone
                wpos = sp or 'beh'
                for w in range(1, b['max_width'] + 1):
                    for deco in ('plain', 'pred_first', 'pred_all', 'alias', 'scope_alias', 'pred_conj', 'pred_disj'):
                        for ow in range(1, (b['other_width'] if two else 1) + 1):
                            if tier == 'quick' and ow == 2 and (w == 3 or deco not in ('plain', 'alias')):
                                continue
                            if deco in ('pred_conj', 'pred_disj') and (w == 3 or ow == 2):
                                continue
                            if term is not None and term[0] == 'evor' and (w == 3 or ow == 2 or deco not in ('plain', 'pred_first')):
                                continue  # a disjunctive terminator (never split): a thinner slice of the other axes
                            alts = []
                            opred = props.PTRUE
                            oalias = None
                            for j in range(w):
                                pred = props.PTRUE
                                alias = None
                                if deco == 'pred_first' and j == 0:
                                    pred = veq(0)
                                elif deco == 'pred_all':
                                    pred = veq(1)
                                elif deco == 'pred_conj':
                                    # a conjunction / disjunction INSIDE a predicate is not an event alternative
                                    pred = ('pred', ('bin', 'and', ('bin', '>=', V, num(0)), ('bin', '<', V, num(1)))) if j == 0 else props.PTRUE
                                elif deco == 'pred_disj':
                                    pred = ('pred', ('bin', 'or', ('bin', '<', V, num(0)), ('bin', '>', V, num(0)))) if j == 0 else veq(0)
                                elif deco == 'alias':
                                    if not two:
                                        pred = None
                                    else:
                                        chain = props.binding_chain(pk)
                                        if chain[0] == wpos:
                                            alias = 'X'  # bound on every alternative, used by the other event
                                            opred = vref('X')
                                        else:
                                            oalias = 'X'  # bound by the other (earlier) event, used by every alternative
                                            pred = vref('X')
                                elif deco == 'scope_alias':
                                    pred = vref(salias) if salias else None
                                if pred is None:
                                    alts = None
                                    break
                                alts.append(ev(SPLIT_TOPICS[j], alias, pred))
                            if alts is None:
                                continue
                            others = [ev(OTHER_TOPICS[k], oalias, opred) for k in range(ow)] if two else None
                            for max_t in (INF,) + b['time_bounds_s']:
                                kw = {wpos: disj(alts)}
                                if two:
                                    kw[other_pos] = disj(others)
                                p = props.make_property(sk, pk, act=act, term=term, max_t=max_t, **kw)
                                out.append(p)
    # shared topics: an alternative at the split position (or the other event) uses the topic of the terminator or of
    # the activator, with a different predicate - events are told apart by topic AND predicate
    for sk, act, term in (('until', None, ev('e', None, veq(1))), ('after_until', ev('s'), ev('e', None, veq(1))), ('after', ev('s', None, veq(1)), None), ('after_until', ev('s', None, veq(0)), ev('e'))):
        for pk in props.PATTERNS:
            sp = props.SPLIT_POSITION[pk]
            two = pk in props.TWO_EVENT
            wpos = sp or 'beh'
            other_pos = ('trig' if wpos == 'beh' else 'beh') if two else None
            for shared in ('e', 's'):
                if (shared == 'e' and term is None) or (shared == 's' and act is None):
                    continue
                for alts in ([ev(shared, None, veq(0)), ev('a')], [ev('a'), ev(shared, None, veq(0))], [ev(shared, None, veq(0)), ev(shared + '2')], [ev('a', None, veq(1)), ev(shared)]):
                    for max_t in (INF,) + b['time_bounds_s'][:1]:
                        kw = {wpos: disj(alts)}
                        if two:
                            kw[other_pos] = ev('d')
                        out.append(props.make_property(sk, pk, act=act, term=term, max_t=max_t, **kw))
                        if two:
                            kw2 = {wpos: disj([ev('a'), ev('b')]), other_pos: ev(shared, None, veq(0))}
                            out.append(props.make_property(sk, pk, act=act, term=term, max_t=max_t, **kw2))
    # the two events of a pattern share a topic, or are the very same event: an alternative at the split position is
    # (or overlaps) the other event - "a requires a" is not vacuous (it needs an EARLIER a), nor is "a causes a";
    # and alternatives whose predicate is the literal False / True are alternatives like any other
    PFALSE = ('pfalse',)
    for sk, act, term in (('globally', None, None), ('after', ev('s'), None), ('until', None, ev('e'))):
        for pk in props.PATTERNS:
            sp = props.SPLIT_POSITION[pk]
            two = pk in props.TWO_EVENT
            wpos = sp or 'beh'
            other_pos = ('trig' if wpos == 'beh' else 'beh') if two else None
            menus = [[ev('a', None, PFALSE), ev('b')], [ev('a'), ev('b', None, PFALSE)], [ev('a', None, PFALSE), ev('b', None, PFALSE)], [ev('a'), ev('b', None, PFALSE), ev('c', None, veq(1))],
                     [ev('a', None, PFALSE), ev('a')]]
            if two:
                menus += [[ev('d'), ev('a')], [ev('a'), ev('d')], [ev('d', None, veq(0)), ev('a')], [ev('d'), ev('d', None, veq(1))], [ev('a'), ev('d'), ev('b')], [ev('d'), ev('a', None, PFALSE)]]
            for alts in menus:
                for max_t in (INF,) + b['time_bounds_s'][:1]:
                    for other in ((ev('d'), ev('d', None, veq(0)), ev('d', None, PFALSE)) if two else (None,)):
                        if sk != 'globally' and (max_t != INF or (other is not None and other[3] != props.PTRUE)):
                            continue
                        kw = {wpos: disj(alts)}
                        if two:
                            kw[other_pos] = other
                        out.append(props.make_property(sk, pk, act=act, term=term, max_t=max_t, **kw))
    # dedupe
    seen = set()
    res = []
    for p in out:
        k = absyn.canon(p)
        if k not in seen:
            seen.add(k)
            res.append(p)
    return res


def topics_of(p):
    ts = []
    for pos in ('act', 'term', 'trig', 'beh'):
        for a in alternatives(get_event(p, pos)):
            if a[1] not in ts:
                ts.append(a[1])
    return ts


def uses_payload(p):
    for pos in ('act', 'term', 'trig', 'beh'):
        for a in alternatives(get_event(p, pos)):
            if a[3][0] == 'pred':
                return True
    return False


_trace_cache = {}


def traces(topics, payloads, length, timed=True):
    """All timed traces up to `length` (each exactly once).  For properties
    without a time bound the gaps and the end slack cannot be observed by the
    semantics, so one gap (1 s) and one slack are enumerated."""
    key = (tuple(topics), tuple(payloads), length, timed)
    res = _trace_cache.get(key)
    if res is not None:
        return res
    gaps = (0, 1, 2) if timed else (1,)
    slacks = (0.0, 3.0) if timed else (0.0,)
    letters = [(g, t, v) for t in topics for v in payloads for g in gaps]
    res = []
    for n in range(0, length + 1):
        for word in product(letters, repeat=n):
            tm = 0.0
            tr = []
            for g, t, v in word:
                tm += g
                tr.append((tm, t, v))
            for slack in slacks:
                res.append((tr, tm + slack))
    if len(_trace_cache) > 6:
        _trace_cache.clear()
    _trace_cache[key] = res
    return res


def time_text(max_t):
    if max_t == INF:
        return None
    return (str(int(max_t)), 's')


def left_nested(p):
    """The same property with every disjunction nested to the left (only the API can build it)."""
    q = p
    for pos in ('act', 'term', 'trig', 'beh'):
        e = get_event(p, pos)
        if e is not None and e[0] == 'evor':
            q = with_event(q, pos, disj(alternatives(e), 'left'))
    return q


def check_property(p, tier, r=None, want_cex=False, route='parser'):
    from hpl.rewrite import canonical_form

    problems = []
    text = absyn.property_text(p, time=time_text(p[2][5]))
    if route == 'parser':
        st, obj = impl.try_parse('prop', text)
    elif route == 'derived':
        # a property made with but() from the parsed one after its canonical form was computed
        from hplmc.checks import c11

        st, obj = impl.try_parse('prop', text)
        if st == 'ok':
            try:
                obj = c11.derive_from_canonicalised(obj)
            except Exception as e:  # noqa: BLE001
                st, obj = impl.outcome_class(e), e
            if obj is None:
                return problems
        text = text + ' [first alternative of every disjunction replaced with but()]'
    elif route == 'api-min':
        # a lower time bound has no syntax: the pattern is built through the API with the window [1 s, 2 s]
        p = (p[0], p[1], p[2][:4] + (1.0, 2.0))
        try:
            st, obj = 'ok', absyn.build(p)
        except Exception as e:  # noqa: BLE001
            st, obj = impl.outcome_class(e), e
        text = absyn.property_text(p, time=time_text(2.0)) + ' [API, min_time = 1 s]'
    elif route == 'api-min-same':
        # the same upper bound as the parsed property checked just before, in the same process, plus a lower bound
        # of half of it: the two print alike (min_time has no syntax) and are different properties
        p = (p[0], p[1], p[2][:4] + (p[2][5] / 2, p[2][5]))
        try:
            st, obj = 'ok', absyn.build(p)
        except Exception as e:  # noqa: BLE001
            st, obj = impl.outcome_class(e), e
        text = absyn.property_text(p, time=time_text(p[2][5])) + f' [API, min_time = {p[2][4]} s, after the same text without it]'
    else:
        try:
            st, obj = 'ok', absyn.build(left_nested(p))
        except Exception as e:  # noqa: BLE001
            st, obj = impl.outcome_class(e), e
        text = text + ' [API, left-nested]'
    if st != 'ok':
        if r is not None:
            r.notes['rejected_by_parser:' + st] += 1
        return problems
    lp = absyn.lift(obj)
    if r is not None:
        r.count('transitions')
    try:
        first = canonical_form(obj)
        n_first = len(first)
        if not (n_first == 1 and first[0] is obj):
            first.clear()  # the list belongs to the caller (e.g. a work-list loop that pops every entry)
        outs = canonical_form(obj)  # what a later caller gets for the same property
        louts = [absyn.lift(o) for o in outs]
        if r is not None:
            r.count('transitions')
    except Exception as e:  # noqa: BLE001
        return [('canonical_form raised ' + type(e).__name__, f'{text}: {e}')]
    if r is not None:
        r.outcomes[f'{p[2][1]}:outputs={len(louts)}'] += 1
    b = bounds(tier)
    tps = topics_of(lp) + ['o']
    payloads = (0, 1) if uses_payload(lp) else (0,)
    timed = lp[2][5] != INF
    assert route != 'api-min' or lp[2][4] == 1.0, lp[2]
    # largest trace length within the bound whose complete trace set fits the budget
    nletters = len(tps) * len(payloads) * (3 if timed else 1)
    L = b['trace_len']
    while L > 2 and sum(nletters ** k for k in range(L + 1)) * (2 if timed else 1) > b['trace_budget']:
        L -= 1
    if len(louts) == 1 and outs[0] is obj:
        if r is not None:
            r.outcomes['returned the property itself'] += 1
            r.count('validated')
        return problems  # nothing was split: trivially equivalent
    sems = [Sem(False), Sem(True)]
    fails = [None, None]
    ntr = 0
    if r is not None:
        r.outcomes[f'trace_len={L}'] += 1
    for tr, end in traces(tps, payloads, L, timed=timed):
        ntr += 1
        for i, sem in enumerate(sems):
            if fails[i] is not None:
                continue
            a = sem.holds(lp, tr, end)
            bb = all(sem.holds(o, tr, end) for o in louts)
            if a != bb:
                fails[i] = (tr, end, a, bb)
        if all(f is not None for f in fails):
            break
    if r is not None:
        r.count('traces', ntr)
        r.count('validated', ntr)
    if all(f is not None for f in fails):
        tr, end, a, bb = fails[0]
        problems.append(('trace semantics changed by canonical_form', f'{text} -> {[absyn.property_text(o, time=time_text(o[2][5])) for o in louts]}: trace {tr} end={end}: input {"holds" if a else "fails"}, conjunction of outputs {"holds" if bb else "fails"} (both re-activation readings)'))
    elif any(f is not None for f in fails) and r is not None:
        r.notes['reading_sensitive_properties'] += 1
    return problems


def hypothetical_split(lp, pos):
    return [with_event(lp, pos, a) for a in alternatives(get_event(lp, pos))]


def oracle_selfcheck(tier):
    """The oracle must tell right from wrong splittings: distributing `some`,
    a response behaviour or a requirement trigger over alternatives must be
    refuted by some trace under both readings."""
    problems = []
    cases = [
        ('existence', 'beh', props.make_property('globally', 'existence', beh=disj([ev('a'), ev('b')]))),
        ('response', 'beh', props.make_property('globally', 'response', trig=ev('d'), beh=disj([ev('a'), ev('b')]))),
        ('requirement', 'trig', props.make_property('globally', 'requirement', beh=ev('d'), trig=disj([ev('a'), ev('b')]))),
        ('prevention', 'trig', None),
    ]
    for name, pos, p in cases:
        if p is None:
            continue
        outs = hypothetical_split(p, pos)
        for re_ in (False, True):
            sem = Sem(re_)
            found = False
            for tr, end in traces(topics_of(p) + ['o'], (0,), 2, timed=False):
                if sem.holds(p, tr, end) != all(sem.holds(o, tr, end) for o in outs):
                    found = True
                    break
            if not found:
                problems.append((f'oracle too weak: splitting the {pos} of {name} is not refuted', name))
    return problems


def plan(tier):
    fam = family(tier)
    n = 96
    return [('props', tier, fam[k::n]) for k in range(n)] + [('selfcheck', tier, None)]


def run(unit):
    kind, tier, ps = unit
    r = Result()
    if kind == 'selfcheck':
        for k, d in oracle_selfcheck(tier):
            r.violation('HARNESS-ERROR ' + k, {'selfcheck': d}, k)
        r.count('evaluations')
        return r
    for p in ps:
        r.count('evaluations')
        r.count('states')
        if len(alternatives(get_event(p, props.SPLIT_POSITION[p[2][1]] or 'beh'))) > 1:
            r.count('nontrivial')
        probs = check_property(p, tier, r)
        widest = max(len(alternatives(get_event(p, pos))) for pos in ('act', 'term', 'trig', 'beh'))
        if widest >= 3:
            # the parser only builds right-nested disjunctions; the API also allows left-nested ones
            probs += check_property(p, tier, r, route='api-left')
        if widest == 2 and p[2][5] == INF:
            probs += check_property(p, tier, r, route='derived')
        if widest == 2 and p[2][5] != INF:
            probs += check_property(p, tier, r, route='api-min')
            probs += check_property(p, tier, r, route='api-min-same')
        for kind_, detail in probs:
            r.violation(f'{kind_} [{p[1][1]}, {p[2][1]}]', {'property': p, 'text': absyn.property_text(p, time=time_text(p[2][5])), 'api_left': 'left-nested' in detail, 'api_min': 'min_time = 1 s' in detail, 'api_min_same': 'after the same text' in detail, 'derived': 'replaced with but()' in detail}, detail, size=len(absyn.property_text(p, time=time_text(p[2][5]))))
        if len(r.samples) < 1:
            r.sample({'property': absyn.property_text(p, time=time_text(p[2][5]))})
    return r


def replay(w):
    from hplmc.checks.c08 import _detuple

    p = _detuple(w['property'])
    # floats survive json; tuples restored
    if w.get('api_min_same'):
        check_property(p, 'thorough')  # the history: the parsed property with the same text first
        return [{'sig': k, 'detail': d} for k, d in check_property(p, 'thorough', route='api-min-same')]
    return [{'sig': k, 'detail': d} for k, d in check_property(p, 'thorough', route='api-left' if w.get('api_left') else 'api-min' if w.get('api_min') else 'derived' if w.get('derived') else 'parser')]


def describe(tier):
    b = bounds(tier)
    return {
        'rule': f"properties: 4 scope kinds (activator simple, with/without alias; terminator with/without predicate) x 5 pattern kinds x width 1..{b['max_width']} at the position canonical_form splits (behaviour for existence, to see it is left alone) x other event width 1..{b['other_width']} x decorations (plain, predicate on first / all alternatives, a conjunctive / disjunctive predicate on the first alternative, alias bound on every alternative and used by the other event or vice versa, activator alias used by every alternative) x time bound (none, {b['time_bounds_s']} s); x all timed traces of length <= {b['trace_len']} (per property the largest length whose complete trace set has <= {b['trace_budget']} traces, never below 2; histogram in outcome_histogram trace_len=*) over mentioned topics + 'o', payload v in {{0,1}} where predicates exist, gaps 0/1/2 s, end slack 0/3 s. Also: alternatives (or the other event) that share their topic with the terminator or the activator under a different predicate (4 scope forms x 5 patterns x 2 shared topics x 5 arrangements); disjunctive terminators (never split) on a thinner slice of the other axes; properties with two alternatives are additionally taken through four other routes: API left-nested, derived with but() from a canonicalised property, and API-built with the time window [1 s, 2 s] (min_time has no syntax; read as the start of the window), and API-built with the window [T/2, T] right after the parsed property with the bound T, which prints the same, in the same process. evaluations = properties; validated = traces on which the property and the conjunction of its canonical form were compared; nontrivial = properties with a disjunction at the split position.",
        'bounds': b,
        'exhaustive': True,
        'assumptions': [
            'reference trace semantics (hplmc/ref/trace.py): scope instances from first activator/terminator, two re-activation readings; a disagreement counts only if it occurs under both',
            'open unbounded liveness obligations at the end of the trace are violations; bounded ones only after their deadline',
        ],
    }
