"""C13 - predicate combinators and reference substitutions are semantically exact.

Universe: every predicate (incl. the two vacuous ones) / expression of a
grammar with references in every slot kind up to the node bound; all ordered
pairs of predicates (smaller bound) for join; aliases Z (unused) and A/B
(possibly used); events `t as A {f}`.  Oracle: reference evaluator, structural
inverse, lifted normal form of events.
"""

from __future__ import annotations

import json

from hplmc import absyn, impl
from hplmc.checks.c10 import free_vars, mentions
from hplmc.core import Result
from hplmc.ref import eval as E
from hplmc.universe import FALSE, NAME_SORT, TRUE, Grammar, alias_field, num, slots, this_field, valuations

ID = 'C13'
tf = this_field
NSHARD = 48

GRID = {
    'N': (-1, 0, 1),
    'B': (True, False),
    'A': ((), (0,), (1, 1)),
    'S': ('"a"',),
}


def bounds(tier):
    return {'nodes': 5 if tier == 'quick' else 6, 'pair_nodes': 3 if tier == 'quick' else 4}


def grammar():
    atoms = {
        'N': [tf('x'), alias_field('A', 'x'), alias_field('B', 'y'), num(1)],
        'B': [tf('p'), alias_field('A', 'p'), TRUE, FALSE],
        'A': [tf('xs'), alias_field('A', 'xs')],
    }
    return Grammar(
        atoms,
        arith=('+', '-'), cmp=('=', '<'), conn=('and', 'or', 'implies'), neg=True, un_minus=True,
        funcs={'abs': ('N', 'N'), 'len': ('A', 'N'), 'sum': ('SET', 'N'), 'max': ('R', 'N')},
        quants=('forall', 'exists'), domains=('A', 'SET', 'R'),
        set_widths=(1, 2), range_flags=((False, False), (True, True), (True, False), (False, True)),
        inclusion=('A', 'SET', 'R'), index=True, eq_sorts=('N', 'B'),
    )


def pair_grammar():
    atoms = {'N': [tf('x'), alias_field('A', 'x'), num(1)], 'B': [tf('p'), alias_field('A', 'p'), TRUE, FALSE]}
    return Grammar(atoms, arith=('+',), cmp=('=', '<'), conn=('and', 'or'), neg=True, un_minus=False, eq_sorts=('N',))


def plan(tier):
    b = bounds(tier)
    units = []
    for sort in ('B', 'N'):
        for n in range(1, b['nodes'] + 1):
            sh = 1 if n <= 3 else NSHARD
            units += [('terms', sort, n, k, sh) for k in range(sh)]
    units += [('pairs', b['pair_nodes'], k, NSHARD) for k in range(NSHARD)]
    units.append(('api', 0, 0, 1))
    units.append(('opmatrix', 0, 0, 1))
    return units


def _sort_of(slot):
    return NAME_SORT.get(slot[1], 'N')  # an escaped bound variable (i, j) is a number


def cond_of(lp):
    if lp[0] == 'pred':
        return lp[1]
    if lp[0] == 'ptrue':
        return ('lit', 'True', True)
    if lp[0] == 'pfalse':
        return ('lit', 'False', False)
    return lp


def _envs(slot_list):
    return valuations(slot_list, grid=GRID, sort_of=_sort_of)


def agree(t1, t2, expect=lambda v: v, envmap=lambda e: e, slot_src=None, r=None):
    """For every valuation on which t1 is defined: t2 (under the mapped env) is
    defined and equals expect(value of t1).  Returns a counterexample or None."""
    sl = slots(slot_src if slot_src is not None else t1)
    extra = [s for s in slots(t2) if s not in sl and slot_src is None]
    n = 0
    for env in _envs(sl + extra):
        n += 1
        v1 = E.value(t1, env)
        if v1[0] == 'undef':
            continue
        env2 = envmap(env)
        v2 = E.value(t2, env2)
        if v2[0] != 'ok' or not E.same(expect(v1[1]), v2[1]):
            ok = False
            for cfg in E.READINGS[1:]:
                w1 = E.value(t1, env, cfg)
                w2 = E.value(t2, env2, cfg)
                if w1[0] == 'undef' or (w2[0] == 'ok' and E.same(expect(w1[1]), w2[1])):
                    ok = True
                    break
            if not ok:
                return {'env': {(k if isinstance(k, str) else '@' + k[1]): v for k, v in env.items()}, 'first': str(v1), 'second': str(v2)}
    if r is not None:
        r.count('valuations', n)
    return None


def txt(t):
    try:
        return absyn.expr_text(t)
    except Exception:  # noqa: BLE001
        return repr(t)


def subst_var_for_this(t, alias):
    """Abstract counterpart of replace_this_with_var."""
    if t == ('this',):
        return ('var', alias)
    return tuple(subst_var_for_this(x, alias) if isinstance(x, tuple) and x and isinstance(x[0], str) else (tuple(subst_var_for_this(y, alias) for y in x) if isinstance(x, tuple) else x) for x in t)


def subst_this_for_var(t, alias):
    if t == ('var', alias):
        return ('this',)
    return tuple(subst_this_for_var(x, alias) if isinstance(x, tuple) and x and isinstance(x[0], str) else (tuple(subst_this_for_var(y, alias) for y in x) if isinstance(x, tuple) else x) for x in t)


def merged_env(alias):
    """Valuation mapping for a replacement: the message bound to `alias` and the
    current message are the same message."""

    def f(env):
        m = dict(env.get(('@', alias), {}))
        m.update(env['this'])
        e2 = dict(env)
        e2['this'] = m
        e2[('@', alias)] = m
        return e2

    return f


def unify_slots(t, alias):
    """Slots of t with this-fields and @alias-fields identified (keyed as this)."""
    out = []
    for s in slots(t):
        if s[0] == alias:
            s = ('this', s[1])
        if s not in out:
            out.append(s)
    return out


ALIASES = {}  # renaming in force (name family): {'A': 'Pose', ...}; empty = the single-letter names of the grammar


def AL(name):
    # a str object of its own (never the interned constant): alias names must be compared by value
    return ''.join(list(ALIASES.get(name, name)))


def check_replacements(obj, kind, t, r=None):
    """replace_this_with_var / replace_var_with_this on one real object."""
    from hpl.rewrite import replace_this_with_var, replace_var_with_this

    problems = []
    lin = absyn.lift(obj)
    c_in = cond_of(lin)
    label = f'{kind} {txt(c_in)}'
    for alias in [AL(a) for a in ('Z', 'A', 'B')]:
        # ---- this -> @alias -------------------------------------------------
        if r is not None:
            r.count('transitions')
        try:
            res = replace_this_with_var(obj, alias)
        except Exception as e:  # noqa: BLE001
            problems.append((f'replace_this_with_var raised {type(e).__name__}', f'{label}, alias {alias}: {str(e)[:160]}'))
            res = None
        if res is not None:
            try:
                lres = absyn.lift(res)
            except absyn.LiftError as e:
                problems.append(('replace_this_with_var returned a non-AST', str(e)))
                lres = None
            if lres is not None:
                if (lres[0] in ('pred', 'ptrue', 'pfalse')) != (kind == 'pred'):
                    problems.append(('replace_this_with_var changed the kind', f'{label} -> {lres[0]}'))
                else:
                    c_out = cond_of(lres)
                    exp = subst_var_for_this(c_in, alias)
                    if absyn.canon(c_out) != absyn.canon(exp):
                        problems.append(('replace_this_with_var: wrong tree', f'{label}, alias {alias}: expected {txt(exp)}, got {txt(c_out)}'))
                    # evaluation: with @alias bound to the message
                    me = merged_env(alias)

                    def env_in(env):
                        return me(env)

                    sl = unify_slots(c_in, alias)
                    cex = None
                    for env in _envs(sl):
                        e1 = me(env)
                        v1 = E.value(c_in, e1)
                        if v1[0] == 'undef':
                            continue
                        e2 = dict(e1)
                        e2['this'] = {}
                        v2 = E.value(c_out, e2)
                        if v2[0] != 'ok' or not E.same(v1[1], v2[1]):
                            cex = (env, v1, v2)
                            break
                    if cex:
                        problems.append(('replace_this_with_var changes the value', f'{label}, alias {alias}: {cex}'))
                    # inverse when the alias is not otherwise used
                    if not mentions(c_in, alias):
                        if r is not None:
                            r.count('transitions')
                        try:
                            back = replace_var_with_this(res, alias)
                            lback = absyn.lift(back, typed=True)
                            if absyn.canon(lback) != absyn.canon(absyn.lift(obj, typed=True)):
                                problems.append(('the two replacements do not undo each other', f'{label}, alias {alias}: got {txt(cond_of(absyn.strip_types(lback)))}'))
                        except Exception as e:  # noqa: BLE001
                            problems.append((f'replace_var_with_this (inverse) raised {type(e).__name__}', f'{label}, alias {alias}: {str(e)[:160]}'))
        # ---- @alias -> this -------------------------------------------------
        if alias in free_vars(c_in):
            if r is not None:
                r.count('transitions')
            try:
                res = replace_var_with_this(obj, alias)
            except Exception as e:  # noqa: BLE001
                problems.append((f'replace_var_with_this raised {type(e).__name__}', f'{label}, alias {alias}: {str(e)[:160]}'))
                continue
            lres = absyn.lift(res)
            c_out = cond_of(lres)
            exp = subst_this_for_var(c_in, alias)
            if absyn.canon(c_out) != absyn.canon(exp):
                problems.append(('replace_var_with_this: wrong tree', f'{label}, alias {alias}: expected {txt(exp)}, got {txt(c_out)}'))
            me = merged_env(alias)
            for env in _envs(unify_slots(c_in, alias)):
                e1 = me(env)
                v1 = E.value(c_in, e1)
                if v1[0] == 'undef':
                    continue
                e2 = dict(e1)
                e2.pop(('@', alias), None)
                v2 = E.value(c_out, e2)
                if v2[0] != 'ok' or not E.same(v1[1], v2[1]):
                    problems.append(('replace_var_with_this changes the value', f'{label}, alias {alias}: {env} {v1} {v2}'))
                    break
    return problems


def check_negate(pred, r=None):
    problems = []
    lp = absyn.lift(pred)
    if r is not None:
        r.count('transitions')
    try:
        neg = pred.negate()
        ln = absyn.lift(neg)
    except Exception as e:  # noqa: BLE001
        return [(f'negate raised {type(e).__name__}', f'{txt(cond_of(lp))}: {str(e)[:160]}')]
    if ln[0] not in ('pred', 'ptrue', 'pfalse'):
        return [('negate returned a non-predicate', ln[0])]
    cex = agree(cond_of(lp), cond_of(ln), expect=lambda v: (not v), r=r)
    if cex:
        problems.append(('negate is not logical negation', f'negate({{ {txt(cond_of(lp))} }}) = {{ {txt(cond_of(ln))} }}: {json.dumps(cex, default=str)}'))
    return problems


def check_join(p, q, r=None):
    problems = []
    lp, lq = absyn.lift(p), absyn.lift(q)
    cp, cq = cond_of(lp), cond_of(lq)
    if r is not None:
        r.count('transitions')
    try:
        j = p.join(q)
        lj = absyn.lift(j)
    except Exception as e:  # noqa: BLE001
        return [(f'join raised {type(e).__name__}', f'{{ {txt(cp)} }}.join({{ {txt(cq)} }}): {str(e)[:160]}')]
    if lj[0] not in ('pred', 'ptrue', 'pfalse'):
        return [('join returned a non-predicate', lj[0])]
    both = ('bin', 'and', cp, cq)
    cex = agree(both, cond_of(lj), r=r)
    if cex:
        problems.append(('join is not conjunction', f'{{ {txt(cp)} }}.join({{ {txt(cq)} }}) = {{ {txt(cond_of(lj))} }}: {json.dumps(cex, default=str)}'))
    # identity / annihilator
    if lp[0] == 'ptrue' and absyn.canon(lj) != absyn.canon(lq):
        problems.append(('vacuous truth is not the identity of join', f'True.join({lq}) = {lj}'))
    if lq[0] == 'ptrue' and absyn.canon(lj) != absyn.canon(lp):
        problems.append(('vacuous truth is not the identity of join', f'{lp}.join(True) = {lj}'))
    if (lp[0] == 'pfalse' or lq[0] == 'pfalse') and lj != ('pfalse',):
        problems.append(('contradiction is not the annihilator of join', f'{lp}.join({lq}) = {lj}'))
    return problems


def check_event(pred, ctext, r=None):
    """`t as A {f}` stores f with @A rewritten to the message itself."""
    import hpl.ast as A

    problems = []
    lp = absyn.lift(pred)
    from hpl.ast.events import EventType

    routes = {
        'publish()': lambda alias: A.HplSimpleEvent.publish('t', predicate=pred, alias=alias),
        'constructor': lambda alias: A.HplSimpleEvent('t', pred, EventType.PUBLISH, alias=alias),
        'but(alias=)': lambda alias: A.HplSimpleEvent.publish('t', predicate=pred).but(alias=alias),
        'but(predicate=)': lambda alias: A.HplSimpleEvent.publish('t', alias=alias).but(predicate=pred),
    }
    for alias, (route, make) in [(AL(a), rt) for a in ('A', 'Z') for rt in routes.items()]:
        if r is not None:
            r.count('transitions')
        try:
            e = make(alias)
        except TypeError:
            if r is not None:
                r.notes['event rejected: TypeError'] += 1
            continue
        except Exception as ex:  # noqa: BLE001
            problems.append((f'event construction raised {type(ex).__name__} [{route}]', f't as {alias} {{ {ctext} }}: {str(ex)[:160]}'))
            continue
        le = absyn.lift(e)
        exp = lp if lp[0] != 'pred' else ('pred', subst_this_for_var(lp[1], alias))
        if absyn.canon(le[3]) != absyn.canon(exp):
            problems.append(('event does not store the predicate with the alias rewritten to the message', f't as {alias} {{ {ctext} }} [{route}] stores {txt(cond_of(le[3]))}'))
        try:
            refs = set(e.external_references())
        except Exception as ex:  # noqa: BLE001
            problems.append((f'event external_references raised {type(ex).__name__}', ctext))
            continue
        if alias in refs:
            problems.append(('event lists its own alias among its external references', f't as {alias} {{ {ctext} }}: {sorted(refs)}'))
        # same meaning as writing the fields directly
        if lp[0] == 'pred':
            me = merged_env(alias)
            for env in _envs(unify_slots(lp[1], alias)):
                e1 = me(env)
                v1 = E.value(lp[1], e1)
                if v1[0] == 'undef':
                    continue
                e2 = dict(e1)
                e2.pop(('@', alias), None)
                v2 = E.value(cond_of(le[3]), e2)
                if v2[0] != 'ok' or not E.same(v1[1], v2[1]):
                    problems.append(('event predicate means something else than the written one', f't as {alias} {{ {ctext} }}: {env}'))
                    break
    return problems


def api_multiarg_objects():
    """Function calls with several arguments (only the constructors can build them) with references in
    every argument position."""
    import hpl.ast as A

    def fld(root, name):
        return A.HplFieldAccess(root, name)

    this, va = A.HplThisMessage(), A.HplVarReference('@A')
    one = A.HplLiteral('1', 1)
    cases = []
    for f, nargs in (('max', 2), ('min', 3), ('gcd', 2), ('atan2', 2), ('log', 2), ('max', 4)):
        for pos in range(nargs):
            for root, name in ((A.HplVarReference('@A'), 'x'), (A.HplThisMessage(), 'x')):
                args = [A.HplLiteral(str(k + 2), k + 2) for k in range(nargs)]
                args[pos] = fld(root, name)
                call = A.HplFunctionCall(f, tuple(args))
                other = fld(A.HplVarReference('@A'), 'y') if pos % 2 == 0 else fld(A.HplThisMessage(), 'y')
                cases.append(A.HplBinaryOperator('>', call, other))
    return cases


def check_term(t, sort, r=None):
    problems = []
    text = absyn.expr_text(t)
    st, e = impl.try_parse('expr', text)
    if st != 'ok':
        if r is not None:
            r.notes['rejected:' + st] += 1
        return problems
    problems += check_replacements(e, 'expr', t, r)
    if sort == 'B':
        st, p = impl.try_parse('pred', '{ ' + text + ' }')
        if st == 'ok':
            problems += check_replacements(p, 'pred', t, r)
            problems += check_negate(p, r)
            problems += check_event(p, text, r)
            # E4 depth 2: a predicate derived from one that has already been negated must be negated afresh
            from hpl.rewrite import replace_this_with_var, replace_var_with_this

            for mk in (lambda: replace_var_with_this(p, AL('A')), lambda: replace_this_with_var(p, AL('Z'))):
                try:
                    d = mk()
                except Exception:  # noqa: BLE001
                    continue
                if d is not p:
                    problems += [(k + ' (predicate derived from a negated one)', dd) for k, dd in check_negate(d, r)]
            if r is not None:
                r.outcomes['predicate:' + absyn.lift(p)[0]] += 1
    return problems


def run(unit):
    r = Result()
    if unit[0] == 'terms':
        _, sort, n, k, shards = unit
        g = grammar()
        for i, t in enumerate(g.stream(sort, n)):
            if i % shards != k:
                continue
            r.count('evaluations')
            r.count('states')
            probs = check_term(t, sort, r)
            r.count('validated')
            seen = set()
            for kind, detail in probs:
                if kind in seen:
                    continue
                seen.add(kind)
                r.violation(kind, {'term': t, 'sort': sort, 'text': txt(t)}, detail, size=absyn.size(t))
            if n <= 4 and (mentions(t, 'A') or mentions(t, 'B')):
                # name family: aliases with several letters (never interned single characters), one a prefix of the other
                from hplmc.checks.c10 import rename_vars

                for mapping in ({'A': 'Pose', 'B': 'msg', 'Z': 'Zed'}, {'A': 'Ab', 'B': 'A', 'Z': 'AbZ'}):
                    ALIASES.clear()
                    ALIASES.update(mapping)
                    try:
                        t2 = rename_vars(t, mapping)
                        r.count('evaluations')
                        r.count('states')
                        seen = set()
                        for kind, detail in check_term(t2, sort, r):
                            if kind in seen:
                                continue
                            seen.add(kind)
                            r.violation(kind + ' [alias names with several letters]', {'term': t2, 'sort': sort, 'text': txt(t2), 'aliases': mapping}, detail, size=absyn.size(t2))
                    finally:
                        ALIASES.clear()
            if i % 2003 == 0:
                r.sample({'term': txt(t)})
    elif unit[0] == 'opmatrix':
        # every comparison, connective and inclusion at the top of a predicate (and once below `not`), over plain /
        # alias / literal operands: negate, both replacements and the event rewrite on each; join over all pairs
        opnds = ['x', 'y', '@A.x', '0', '1', '-1', 'x + 1']  # noqa: E501
        texts = []
        for op in ('=', '!=', '<', '<=', '>', '>='):
            for a in opnds:
                for b_ in opnds:
                    if a != b_ and not (a[0] in '01-' and b_[0] in '01-'):
                        texts.append(f'{a} {op} {b_}')
        for op in ('and', 'or', 'implies', 'iff'):
            for a in ('p', 'x > 0', '@A.p', 'not q'):
                for b_ in ('q', 'y <= 1', '@A.x >= x'):
                    texts.append(f'{a} {op} {b_}')
        texts += ['x in {0, 1}', 'x in [0 to 1]', 'not x in ![0 to @A.x]', 'x in xs', 'forall i in xs: @i >= x', 'exists i in xs: @i != @A.x']
        # quantifiers whose domain is a literal range or set that mentions the message or the alias (6+ nodes, beyond the
        # term bound of the quick tier): the rewrites must reach the bounds / members of the domain as well as the body
        refs = ('x', '@A.x', 'len(@A.xs)', 'len(xs)', 'x + @A.x')
        for q in ('forall', 'exists'):
            for ref in refs:
                for dom in (f'[0 to {ref}]', f'![{ref} to 9]', f'[{ref} to {ref}]!', f'{{{ref}}}', f'{{1, {ref}}}', f'{{{ref}, y, 3}}'):
                    for body in ('@i > 0', 'xs[@i] > @A.y', '@i = y'):
                        if q == 'exists' and body != '@i > 0' and dom[0] != '{':
                            continue
                        texts.append(f'{q} i in {dom}: {body}')
            texts.append(f'{q} i in [0 to @A.x]: {q} j in {{@i, x}}: @j > @A.y')
        texts += [f'not ({t})' for t in texts[::7]]
        preds = []
        for text in texts:
            st, p = impl.try_parse('pred', '{ ' + text + ' }')
            if st != 'ok':
                r.notes['opmatrix rejected:' + st] += 1
                continue
            preds.append((text, p))
            r.count('evaluations')
            r.count('states')
            probs = check_negate(p, r) + check_replacements(p, 'pred', absyn.lift(p), r) + check_event(p, text, r)
            try:
                probs += [(k + ' (negated twice)', d) for k, d in check_negate(p.negate(), r)]
            except Exception:  # noqa: BLE001
                pass
            seen = set()
            for kind, detail in probs:
                if kind in seen:
                    continue
                seen.add(kind)
                r.violation(kind + ' [operator matrix]', {'opmatrix': text}, detail, size=len(text))
            r.count('validated')
        for (t1, p1) in preds[::5]:
            for (t2, p2) in preds[::9]:
                r.count('evaluations')
                for kind, detail in check_join(p1, p2, r):
                    r.violation(kind + ' [operator matrix]', {'opmatrix': t1 + ' // ' + t2}, detail, size=len(t1) + len(t2))
        r.sample({'opmatrix': 'x >= 0'})
    elif unit[0] == 'api':
        import hpl.ast as A

        for e in api_multiarg_objects():
            r.count('evaluations')
            r.count('states')
            label = str(e)
            probs = check_replacements(e, 'expr', absyn.lift(e), r)
            p = A.HplPredicateExpression(e)
            probs += check_replacements(p, 'pred', absyn.lift(e), r)
            probs += check_negate(p, r)
            probs += check_event(p, label, r)
            seen = set()
            for kind, detail in probs:
                if kind in seen:
                    continue
                seen.add(kind)
                r.violation(kind + ' [API-built call with several arguments]', {'api': label}, detail, size=len(label))
            r.count('validated')
        r.sample({'api_built': 'max(@A.x, 3) > @A.y'})
    else:
        _, n, k, shards = unit
        g = pair_grammar()
        terms = list(g.upto('B', n))
        preds = []
        for t in terms:
            st, p = impl.try_parse('pred', '{ ' + absyn.expr_text(t) + ' }')
            if st == 'ok':
                preds.append((t, p))
        idx = 0
        for (t1, p1) in preds:
            for (t2, p2) in preds:
                idx += 1
                if idx % shards != k:
                    continue
                r.count('evaluations')
                r.count('states')
                for kind, detail in check_join(p1, p2, r):
                    r.violation(kind, {'pair': [t1, t2], 'text': [txt(t1), txt(t2)]}, detail, size=absyn.size(t1) + absyn.size(t2))
                r.count('validated')
        r.sample({'join_pairs_over': len(preds)})
    return r


def replay(w):
    from hplmc.checks.c08 import _detuple

    if 'opmatrix' in w:
        return [{'sig': v['sig'], 'detail': v['detail']} for v in run(('opmatrix', 0, 0, 1)).violations]
    if 'api' in w:
        return [{'sig': v['sig'], 'detail': v['detail']} for v in run(('api', 0, 0, 1)).violations]
    if 'term' in w:
        ALIASES.clear()
        ALIASES.update(w.get('aliases') or {})
        try:
            return [{'sig': k, 'detail': d} for k, d in check_term(_detuple(w['term']), w['sort'])]
        finally:
            ALIASES.clear()
    t1, t2 = (_detuple(x) for x in w['pair'])
    p1 = impl.parser('pred').parse('{ ' + absyn.expr_text(t1) + ' }')
    p2 = impl.parser('pred').parse('{ ' + absyn.expr_text(t2) + ' }')
    return [{'sig': k, 'detail': d} for k, d in check_join(p1, p2)]


def describe(tier):
    b = bounds(tier)
    return {
        'rule': f"every Bool/Num term with <= {b['nodes']} nodes over x @A.x @B.y 1 p @A.p True False xs @A.xs with + - = < and or implies not unary-minus abs len sum max, sets, ranges, xs[..], inclusion and both quantifiers (references therefore occur in operands, set elements, range bounds, indices, accessed objects, quantifier domains and bodies, function arguments); each as expression and (Bool) as predicate: both replacements for aliases Z (unused), A, B compared with the abstract substitution and by evaluation with the alias bound to the message, inverse law, negate (also of predicates derived from an already negated one), event alias rewriting through four construction routes; 32 API-built calls with several arguments (max / min / gcd / atan2 / log) with a reference in each argument position; all ordered pairs of predicates with <= {b['pair_nodes']} nodes for join. x every valuation of the grid. Terms with <= 4 nodes that mention an alias are repeated under two renamings to names with several letters (Pose / msg / Zed; Ab / A / AbZ - one a prefix of the other), passed as str objects of their own. Plus an operator matrix: all six comparisons over 7 operand shapes, the four connectives, inclusions and quantifiers at the top of a predicate (and below `not`), both quantifiers over literal ranges and sets whose bounds or members mention the message, the alias or both (3 bodies; two nested ones): negate (once and twice), both replacements, the event rewrite, and join over a slice of the pairs.",
        'bounds': b,
        'exhaustive': True,
        'assumptions': ['reference evaluator; aliases captured by a quantifier are outside the alphabet (quantified variables are i, j)'],
    }
