"""C14 - rewriting functions are total on valid inputs.

Universe: every accepted AST of (a) all terms up to the node bound of a grammar
covering every expression node kind (strings, constants, sets, ranges,
indexing, quantifiers), (b) the function x argument-shape matrix: each of the 27
built-ins x 18 argument shapes x 6 contexts, (c) the property skeleton universe.
Each is fed to simplify, split_and, refactor_reference (alias present / absent),
both this/var replacements, get_conjuncts / get_disjuncts and canonical_form.
Oracle: result kind + allowed-exception table computed from reference models.
"""

from __future__ import annotations

from hplmc import absyn, impl, props
from hplmc.checks import c06, c09, c11, c13
from hplmc.core import Result, Watchdog, chunks
from hplmc.ref import eval as E
from hplmc.ref import types as T

ID = 'C14'
NSHARD = 48

from hplmc.universe import GRID as FULL_GRID  # noqa: E402  (has a value menu for every sort, incl. messages)


def bounds(tier):
    return {'nodes': 4 if tier == 'quick' else 5, 'max_width': 3 if tier == 'quick' else 4}


def function_matrix():
    from hplmc.universe import TRUE, alias_field, num, this_field

    tf = this_field
    x, y, p, s = tf('x'), tf('y'), tf('p'), tf('s')
    args = [
        num(1), num(0), ('un', '-', num(1)), ('lit', '2.5', 2.5), ('lit', '"a"', '"a"'), TRUE, x, p, s, alias_field('A', 'x'), tf('m'), ('var', 'v'),
        ('set', (num(1), num(2))), ('set', (x, num(2))), ('set', (num(1),)), ('set', (x,)), ('set', (x, y, num(1))),
        ('range', num(0), num(3), False, False), ('range', num(3), num(1), True, True), ('range', num(1), num(1), True, True), ('range', x, num(3), False, True), ('range', num(0), x, True, False),
        tf('xs'), alias_field('A', 'xs'), ('un', '-', x), ('bin', '+', x, num(1)), ('bin', '/', num(1), num(2)),
        ('range', num(0), ('lit', '18446744073709551615', 18446744073709551615), False, False), ('range', ('un', '-', ('lit', '9223372036854775808', 9223372036854775808)), ('lit', '9223372036854775807', 9223372036854775807), False, True),
        ('lit', '9007199254740993', 9007199254740993),
        # one reference among literals that cancel out (sum 0, product 1) or dominate (max / min)
        ('set', (alias_field('A', 'x'), num(1), ('un', '-', num(1)))), ('set', (('var', 'v'),)), ('set', (alias_field('A', 'x'),)), ('set', (x, num(0))), ('set', (('var', 'v'), num(1))),
        ('set', (alias_field('A', 'x'), num(2), ('lit', '0.5', 0.5))), ('set', (num(0), ('var', 'v'), num(0))), ('set', (('var', 'v'), ('var', 'v'))),
    ]

    def first_reference(a):
        for u in absyn.subterms(a):
            if u[0] in ('field', 'var'):
                return u
        return None

    out = []
    for f in c06.FUNCTIONS:
        for a in args:
            c = ('call', f, (a,))
            out.append(c)
            for op in ('<', '=', '>='):
                out.append(('bin', op, c, num(1)))
                out.append(('bin', op, num(1), c))
                out.append(('bin', op, c, y))
            out.append(('bin', '+', c, c))
            out.append(('bin', '-', num(1), c))
            out.append(('bin', '*', c, x))
            out.append(('un', '-', c))
            out.append(('bin', 'and', ('bin', '>', c, num(0)), ('bin', '>', alias_field('A', 'x'), c)))
            out.append(('bin', 'in', c, ('set', (c, num(1)))))
            m = first_reference(a)
            if m is not None:
                # the call compared / combined with the very reference it was computed from
                for op in ('=', '!=', '<'):
                    out.append(('bin', op, c, m))
                    out.append(('bin', op, m, c))
                out.append(('bin', '=', ('bin', '-', c, m), num(0)))
    return out


def plan(tier):
    b = bounds(tier)
    units = []
    for sort in ('B', 'N', 'S'):
        for n in range(1, b['nodes'] + 1):
            sh = 1 if n <= 3 else NSHARD
            units += [('terms', tier, sort, n, k, sh) for k in range(sh)]
    units += [('matrix', tier, k, 32) for k in range(32)]
    units += [('c08family', tier, k, 16) for k in range(16)]
    units += [('assoc', tier, k, 8) for k in range(8)]
    for n in range(1, 6 if tier == 'quick' else 7):
        sh = 1 if n <= 4 else NSHARD
        units += [('boolfrag', tier, n, k, sh) for k in range(sh)]
    sk = list(props.width_skeletons(b['max_width']))
    units += [('props', tier, c) for c in chunks(sk, 48)]
    return units


def lift_kind(obj):
    try:
        l = absyn.lift(obj, typed=True)
    except absyn.LiftError:
        return ('other', None)
    if l[0] == 't':
        return ('expr', l)
    if l[0] in ('pred', 'ptrue', 'pfalse'):
        return ('pred', l)
    if l[0] == 'property':
        return ('prop', l)
    return ('other', l)


def predicted_clash(tree):
    """Does the (substituted) abstract condition require one reference at two disjoint types?"""
    req = {}
    for path, child, param, desc in T.argument_positions(tree):
        if child[0] in ('field', 'index', 'var'):
            req.setdefault(absyn.canon(child), []).append(param & (T.ACCESS if child[0] != 'var' else T.ITEM))
    # a variable used as the root of a field access is required to be a message
    for u in absyn.subterms(tree):
        if u[0] == 'field' and u[1][0] == 'var':
            req.setdefault(absyn.canon(u[1]), []).append(T.MSG)
        if u[0] == 'index':
            req.setdefault(absyn.canon(u[1]), []).append(T.ARR)
        if u[0] == 'field' and u[1][0] in ('field', 'index'):
            req.setdefault(absyn.canon(u[1]), []).append(T.MSG)
    if tree[0] in ('field', 'index', 'var'):
        req.setdefault(absyn.canon(tree), []).append(T.B)
    for path, sets in req.items():
        inter = T.ANY
        for s_ in sets:
            inter = inter & s_
        if not inter:
            return True
    return False


def check_object(obj, label, r):
    import hpl.rewrite as R

    problems = []
    kind, lin = lift_kind(obj)
    cond = c13.cond_of(absyn.strip_types(lin)) if kind in ('expr', 'pred') else None
    is_bool = kind == 'pred' or (kind == 'expr' and T.names_of(lin[1]) == T.B)

    def call(name, fn, allowed=lambda e: False, expect=None):
        r.count('transitions')
        try:
            with Watchdog(20):
                res = fn()
        except Watchdog.Timeout:
            problems.append((f'{name} did not terminate', f'{label}: no result within 20 s'))
            return None
        except RecursionError:
            problems.append((f'{name} raised RecursionError', label))
            return None
        except Exception as e:  # noqa: BLE001
            if allowed(e):
                r.outcomes[f'{name}: allowed {type(e).__name__}'] += 1
                return None
            problems.append((f'{name} raised {type(e).__name__}', f'{label}: {str(e)[:160]}'))
            return None
        r.outcomes[f'{name}: ok'] += 1
        if expect is not None:
            why = expect(res)
            if why:
                problems.append((f'{name}: {why}', label))
        return res

    def same_kind(res):
        k, l = lift_kind(res)
        if k != kind:
            return f'returned a {k} for a {kind}'
        if kind == 'expr' and l[1] != lin[1]:
            return f'changed the type of the expression ({sorted(T.names_of(lin[1]))} -> {sorted(T.names_of(l[1]))})'
        return None

    if kind in ('expr', 'pred'):
        undefined = E.constant_undefined(cond)
        call('simplify', lambda: R.simplify(obj), allowed=lambda e: undefined, expect=same_kind)

        def pair_ok(res):
            if not isinstance(res, tuple) or len(res) != 2:
                return 'did not return a pair'
            for x in res:
                k, l = lift_kind(x)
                if k != kind:
                    return f'returned a {k} for a {kind}'
            return None

        if is_bool:
            for alias in ('A', 'C'):
                call(f'refactor_reference({alias})', lambda alias=alias: R.refactor_reference(obj, alias), expect=pair_ok)

            def list_of_bool(res):
                if not isinstance(res, list):
                    return 'did not return a list'
                for x in res:
                    k, l = lift_kind(x)
                    if k != 'expr' or T.names_of(l[1]) != T.B:
                        return 'returned a non-boolean element'
                return None

            unsat = lambda e: isinstance(e, ValueError) and c09.always_false(cond, FULL_GRID) and c09.has_false_literal_after_presplit(cond)  # noqa: E731
            target = obj if kind == 'pred' else _as_bool(obj)
            call('split_and', lambda: R.split_and(target), allowed=unsat, expect=list_of_bool)

            def list_of_expr(res):
                if not isinstance(res, list) or not res:
                    return 'did not return a non-empty list'
                return None if all(lift_kind(x)[0] == 'expr' for x in res) else 'returned a non-expression element'

            call('get_conjuncts', lambda: R.get_conjuncts(obj), expect=list_of_expr)
            call('get_disjuncts', lambda: R.get_disjuncts(obj), expect=list_of_expr)
        for alias in ('Z', 'A'):
            exp_tree = c13.subst_var_for_this(cond, alias)
            clash = kind == 'pred' and predicted_clash(exp_tree)
            call(f'replace_this_with_var({alias})', lambda alias=alias: R.replace_this_with_var(obj, alias),
                 allowed=lambda e, clash=clash: isinstance(e, TypeError) and clash, expect=lambda res: None if lift_kind(res)[0] == kind else 'changed the kind')
        for alias in ('A', 'v'):
            if _bare_use(cond, alias):
                continue  # a variable used as a value is not a message alias: outside the replacement's domain
            exp_tree = c13.subst_this_for_var(cond, alias)
            clash = kind == 'pred' and predicted_clash(exp_tree)
            call(f'replace_var_with_this({alias})', lambda alias=alias: R.replace_var_with_this(obj, alias),
                 allowed=lambda e, clash=clash: isinstance(e, TypeError) and clash, expect=lambda res: None if lift_kind(res)[0] == kind else 'changed the kind')
    elif kind == 'prop':
        def props_ok(res):
            if not isinstance(res, list) or not res:
                return 'did not return a non-empty list'
            return None if all(lift_kind(x)[0] == 'prop' for x in res) else 'returned a non-property element'

        partial = c11.partial_alias(absyn.strip_types(lin))
        r.count('transitions')
        try:
            with Watchdog(20):
                res = R.canonical_form(obj)
            why = props_ok(res)
            if why:
                problems.append((f'canonical_form: {why}', label))
        except Exception as e:  # noqa: BLE001
            if type(e).__name__ == 'HplSanityError' and partial:
                problems.append((KNOWN_PARTIAL, label))
            else:
                problems.append((f'canonical_form raised {type(e).__name__}', f'{label}: {str(e)[:160]}'))
    return problems


KNOWN_PARTIAL = 'canonical_form raised HplSanityError: a later event refers to an alias that only some alternatives of the split disjunction bind'


def _bare_use(tree, name):
    """Is @name used other than as the root of a field access?"""
    def walk(t, parent_is_field_root):
        if t == ('var', name):
            return not parent_is_field_root
        if t[0] == 'field':
            return walk(t[1], True)
        for x in t[1:]:
            if isinstance(x, tuple):
                if x and isinstance(x[0], str):
                    if walk(x, False):
                        return True
                else:
                    for y in x:
                        if isinstance(y, tuple) and walk(y, False):
                            return True
        return False

    return walk(tree, False)


def _as_bool(e):
    from hpl.types import DataType

    return e.cast(DataType.BOOL)


def process_term(t, sort, r, i=0):
    try:
        text = absyn.expr_text(t)
    except ValueError:
        return
    r.count('evaluations')
    st, e = impl.try_parse('expr', text)
    if st != 'ok':
        r.notes['rejected:' + st] += 1
        return
    r.count('states')
    probs = check_object(e, f'expression {text}', r)
    isb = sort == 'B' or (sort == 'X' and T.definite(t) == T.B)
    if isb:
        st, p = impl.try_parse('pred', '{ ' + text + ' }')
        if st == 'ok':
            r.count('states')
            probs += check_object(p, f'predicate {{ {text} }}', r)
    r.count('validated')
    seen = set()
    for kind, detail in probs:
        sig = f'{kind} [{_shape(t)}]'
        if sig in seen:
            continue
        seen.add(sig)
        r.violation(sig, {'term': t, 'sort': sort, 'text': text}, detail, size=absyn.size(t))
    if i % 1201 == 0:
        r.sample({'term': text})


def _shape(t):
    """Coarse attribution: the function and argument kind involved, if any."""
    for u in absyn.subterms(t):
        if u[0] == 'call':
            a = u[2][0]
            return f'{u[1]}({a[0]})'
    return t[0]


def run(unit):
    r = Result()
    what, tier = unit[0], unit[1]
    if what == 'terms':
        _, _, sort, n, k, shards = unit
        g = c06.grammar()
        for i, t in enumerate(g.stream(sort, n)):
            if i % shards != k:
                continue
            process_term(t, sort, r, i)
    elif what == 'boolfrag':
        from hplmc import boolfrag

        _, _, n, k, shards = unit
        g = boolfrag.grammar(True, quantifiers=True)
        for i, t in enumerate(g.stream('B', n)):
            if i % shards != k:
                continue
            process_term(t, 'B', r, i)
    elif what == 'c08family':
        from hplmc.checks import c08

        _, _, k, shards = unit
        for i, t in enumerate(c08.families(tier)):
            if i % shards != k:
                continue
            process_term(t, 'B' if c08._is_bool(t) else 'N', r, i)
    elif what == 'assoc':
        # re-association meets the unit / absorbing / sign rules: every bracketing of four operands under + and * (also
        # mixed, also with literals inside), combined with a literal -1, 0, 1 or 2 on either side under * + - /, bare,
        # negated, and inside a comparison - 7 to 11 nodes, beyond the node bound of the term universe
        from hplmc.universe import num, this_field as tf

        _, _, k, shards = unit
        x, y, z, w = tf('x'), tf('y'), tf('z'), tf('w')

        def B(o, a, b_):
            return ('bin', o, a, b_)

        inners = []
        for o1 in ('+', '*'):
            for o2 in ('+', '*', '-'):
                for (a, b_, c, d) in ((x, y, z, w), (x, num(1), y, num(2)), (num(3), x, y, x)):
                    inners += [B(o1, B(o2, a, b_), B(o2, c, d)), B(o1, a, B(o1, b_, B(o2, c, d))), B(o1, B(o1, B(o2, a, b_), c), d), B(o2, B(o1, a, b_), B(o1, c, d)), B(o1, a, B(o2, B(o1, b_, c), d))]
        lits = [('un', '-', num(1)), num(0), num(1), num(2)]
        terms = []
        for inner in inners:
            for lit in lits:
                for o in ('*', '+', '-', '/'):
                    terms += [B(o, inner, lit), B(o, lit, inner)]
            terms.append(('un', '-', inner))
        i = 0
        for t in terms:
            for wrapped, sort in ((t, 'N'), (B('<', t, num(0)), 'B'), (B('=', ('un', '-', t), tf('v')), 'B')):
                i += 1
                if i % shards == k:
                    process_term(wrapped, sort, r, i)
    elif what == 'matrix':
        _, _, k, shards = unit
        for i, t in enumerate(function_matrix()):
            if i % shards != k:
                continue
            process_term(t, 'X', r, i)
    else:
        for sk, pk, widths in unit[2]:
            for deco in c11.DECOS:
                evs = c11.decorate(sk, pk, widths, deco)
                if evs is None:
                    continue
                p = props.make_property(
                    sk, pk, act=props.disj(evs['act']) if 'act' in evs else None, term=props.disj(evs['term']) if 'term' in evs else None,
                    trig=props.disj(evs['trig']) if 'trig' in evs else None, beh=props.disj(evs['beh']),
                )
                text = absyn.property_text(p)
                r.count('evaluations')
                st, obj = impl.try_parse('prop', text)
                if st != 'ok':
                    r.notes['rejected:' + st] += 1
                    continue
                r.count('states')
                for kind, detail in check_object(obj, f'property {text}', r):
                    r.violation(kind if kind == KNOWN_PARTIAL else f'{kind} [{pk}, {deco}]', {'text': text}, detail, size=len(text))
                r.count('validated')
        r.sample({'property': text})
    return r


def replay(w):
    r = Result()
    if 'term' in w:
        from hplmc.checks.c08 import _detuple

        process_term(_detuple(w['term']), w['sort'], r)
    else:
        obj = impl.parser('prop').parse(w['text'])
        for kind, detail in check_object(obj, w['text'], r):
            r.violation(kind, {}, detail)
    return [{'sig': v['sig'], 'detail': v['detail']} for v in r.violations]


def describe(tier):
    b = bounds(tier)
    return {
        'rule': f"(a) every accepted Bool/Num/Str term with <= {b['nodes']} nodes of the C06 grammar (every expression node kind) as expression and predicate; (b) each of the 27 built-in functions x 38 argument shapes (a reference among literals that cancel out, number / string / bool literals, fields, alias fields, message field, variable, sets of literals / with fields / singleton, ranges incl. reversed, empty and with non-literal bounds, arrays, arithmetic) alone and in 16-23 contexts (compared with the very reference it was computed from, either side of 3 comparisons, arithmetic, unary minus, conjunction with an alias atom, set member); (b') every term with <= 5 (thorough 6) nodes of the boolean + quantifier fragment with alias atoms (the shapes the quantifier-splitting code of split_and / refactor_reference works on); (b'') the shape-directed families of C08; (c) every property skeleton (widths <= {b['max_width']}) x 6 decorations. Calls: simplify, split_and, refactor_reference (A, C), replace_this_with_var (Z, A), replace_var_with_this (A, v), get_conjuncts, get_disjuncts, canonical_form. A state = one accepted AST; a transition = one call.",
        'bounds': b,
        'exhaustive': True,
        'assumptions': [
            'allowed exceptions: anything from simplify iff the reference evaluator finds an undefined constant sub-term or identically-zero divisor; ValueError from split_and iff the input is false on the whole grid with a literal False conjunct; TypeError from a replacement on a predicate iff the abstract substitution requires one reference at two disjoint types',
        ],
    }
