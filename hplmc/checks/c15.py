"""C15 - reference queries report exactly the references that occur.

Universe: every term of a grammar that has a marker reference (`@a`, `@a.f`,
own fields, quantifiers binding `a`) in every child slot of every node kind, up
to the node bound; each wrapped as expression, predicate, simple event (with
and without the alias `a`), event disjunction, and property; built through the
parser and through the public constructors.  Oracle: generic attrs-field walk.
"""

from __future__ import annotations

from hplmc import absyn, impl
from hplmc.core import Result
from hplmc.ref import walk as W
from hplmc.universe import FALSE, TRUE, Grammar, alias_field, num, this_field

ID = 'C15'
tf = this_field
NSHARD = 48


def bounds(tier):
    return {'nodes': 5 if tier == 'quick' else 6}


def grammar():
    atoms = {
        'N': [tf('x'), ('var', 'a'), alias_field('a', 'f'), alias_field('b', 'f'), ('field', tf('m'), 'f'), num(1)],
        'B': [tf('p'), alias_field('a', 'p')],
        'A': [tf('xs'), alias_field('a', 'xs')],
    }
    return Grammar(
        atoms,
        arith=('+', '**'), cmp=('=', '<'), conn=('and', 'implies'), neg=True, un_minus=True,
        funcs={'abs': ('N', 'N'), 'len': ('A', 'N'), 'sum': ('SET', 'N'), 'max': ('R', 'N'), 'int': ('B', 'N')},
        quants=('forall', 'exists'), domains=('A', 'SET', 'R'), qvars=('a', 'i'),
        set_widths=(1, 2, 3), range_flags=((False, False), (True, False)),
        inclusion=('A', 'SET', 'R'), index=True,
    )


def plan(tier):
    units = []
    for sort in ('B', 'N'):
        for n in range(1, bounds(tier)['nodes'] + 1):
            sh = 1 if n <= 3 else NSHARD * (4 if n >= 6 else 1)
            units += [(sort, n, k, sh) for k in range(sh)]
    units.append(('events',))
    units.append(('deep',))
    return units


NAMES = ('a', 'b', 'i', 'zz', 'k1', 'k2', 'k3')
RENAME = {}  # name family in force: the grammar's one-letter names replaced by related names of several letters


def RN(n):
    return RENAME.get(n, n)


def _call(f, *args):
    try:
        return ('ok', f(*args))
    except Exception as e:  # noqa: BLE001
        return ('raised', type(e).__name__)


def check_object(obj, what, r=None):
    """Compare every query of one real object with the generic walk."""
    problems = []
    n = W.cname(obj)
    is_expr = hasattr(obj, 'data_type')
    is_pred = n in ('HplPredicateExpression', 'HplVacuousTruth', 'HplContradiction')
    is_event = n in ('HplSimpleEvent', 'HplEventDisjunction')

    def bad(kind, detail):
        problems.append((f'{kind} [{n}]', f'{what}: {detail}'))

    if r is not None:
        r.count('transitions')
    if is_expr or is_pred or is_event:
        got = _call(obj.external_references)
        exp = W.free_names(obj)
        if r is not None:
            r.outcomes[f'{n}: free={sorted(exp)}'] += 1
        if got[0] != 'ok' or set(got[1]) != exp:
            bad('external_references', f'expected {sorted(exp)}, got {got}')
        elif isinstance(got[1], (set, list)):
            # the returned container belongs to the caller: modify it, then ask again (history of length 2)
            (got[1].add if isinstance(got[1], set) else got[1].append)('JUNK')
            if isinstance(got[1], set) and exp:
                got[1].discard(sorted(exp)[0])
            again = _call(obj.external_references)
            if again[0] != 'ok' or set(again[1]) != exp:
                bad('external_references', f'second call after the caller modified the first result: expected {sorted(exp)}, got {again}')
        for name in NAMES + tuple(RENAME.values()) + (tuple(''.join(RENAME.values())) if RENAME else ()):
            got = _call(obj.contains_reference, name)
            exp = W.occurs_var(obj, name)
            if got[0] != 'ok' or bool(got[1]) != exp:
                bad('contains_reference', f'({name}) expected {exp}, got {got}')
        got = _call(obj.contains_self_reference)
        exp = W.occurs_this(obj)
        if got[0] != 'ok' or bool(got[1]) != exp:
            bad('contains_self_reference', f'expected {exp}, got {got}')
    if is_expr:
        for name in NAMES + tuple(RENAME.values()):
            got = _call(obj.contains_definition, name)
            exp = W.binds(obj, name)
            if got[0] != 'ok' or bool(got[1]) != exp:
                bad('contains_definition', f'({name}) expected {exp}, got {got}')
    if is_event:
        got = _call(obj.aliases)
        exp = W.event_aliases(obj)
        if got[0] != 'ok' or tuple(got[1]) != exp:
            bad('aliases', f'expected {exp}, got {got}')
        elif isinstance(got[1], list):
            got[1].append('JUNK')
            again = _call(obj.aliases)
            if again[0] != 'ok' or tuple(again[1]) != exp:
                bad('aliases', f'second call after the caller modified the first result: expected {exp}, got {again}')
    if n == 'HplPredicateExpression':
        got = _call(obj.check_some_self_references)
        exp = W.has_own_field(obj)
        ok = (got == ('ok', None)) if exp else (got == ('raised', 'HplSanityError'))
        if not ok:
            bad('check_some_self_references', f'own field referenced: {exp}, got {got}')
    # iterate(): every node exactly once, parents first; expressions left to right
    got = _call(lambda: list(obj.iterate()))
    exp = W.preorder(obj)
    if got[0] != 'ok':
        bad('iterate', f'raised {got[1]}')
    else:
        seq = got[1]
        if sorted(map(id, seq)) != sorted(map(id, exp)):
            bad('iterate misses or repeats nodes', f'{len(seq)} visited, {len(exp)} in the tree')
        else:
            end = _match_preorder(obj, seq, 0)
            if end != len(seq):
                bad('iterate is not a parents-first, left-to-right traversal', f'{[W.cname(o) for o in seq]} vs {[W.cname(o) for o in exp]}')
    return problems


def _match_preorder(o, seq, k):
    """seq[k:] starts with a pre-order traversal of o (the same object may sit in
    several slots).  Children of expressions / predicates must come in
    declaration (= source) order; children of events, scopes, patterns,
    properties and specifications in any order.  Returns the index after the
    traversal, or None."""
    if k >= len(seq) or seq[k] is not o:
        return None
    k += 1
    remaining = W.generic_children(o)
    strict = hasattr(o, 'data_type') or W.cname(o).startswith('HplPredicate') or W.cname(o) in ('HplSpecification',)
    while remaining:
        if k >= len(seq):
            return None
        cands = [0] if strict else range(len(remaining))
        for idx in cands:
            if remaining[idx] is seq[k]:
                nk = _match_preorder(remaining[idx], seq, k)
                if nk is not None:
                    k = nk
                    del remaining[idx]
                    break
        else:
            return None
    return k


def derived_objects(obj, label):
    """Objects derived from an already-queried object: the queries of the copy must
    describe the copy (no state may leak from the original)."""
    import hpl.ast as A

    out = []
    n = W.cname(obj)

    def add(what, fn):
        try:
            d = fn()
        except Exception:  # noqa: BLE001
            return
        if d is not obj and d is not None:
            out.append((f'{what} of {label}', d))

    if hasattr(obj, 'data_type') or n == 'HplPredicateExpression':
        add('replace_var_reference(a -> this)', lambda: obj.replace_var_reference('a', A.HplThisMessage()))
        add('replace_var_reference(b -> @zz)', lambda: obj.replace_var_reference('b', A.HplVarReference('@zz')))
        add('replace_self_reference(@zz)', lambda: obj.replace_self_reference(A.HplVarReference('@zz')))
    if n == 'HplPredicateExpression':
        add('negate', lambda: obj.negate())
        add('but(expression=not e)', lambda: obj.but(expression=A.Not(obj.expression)))
    if n == 'HplSimpleEvent':
        add('but(alias=None)', lambda: obj.but(alias=None))
        add('but(predicate=vacuous)', lambda: obj.but(predicate=A.HplVacuousTruth()))
        add('replace_var_reference(b -> this)', lambda: obj.replace_var_reference('b', A.HplThisMessage()))
    return out


def objects_for(t, sort, r=None):
    """Real objects (with a label) for one abstract term: expression, predicate,
    events, property; through the parser and through the API."""
    out = []
    if RENAME:
        from hplmc.checks.c10 import rename_vars

        t = rename_vars(t, RENAME)
    try:
        text = absyn.expr_text(t)
    except ValueError:
        return out
    st, e = impl.try_parse('expr', text)
    if st != 'ok':
        if r is not None:
            r.notes['rejected:' + st] += 1
        return out
    out.append((f'expr {text}', e))
    try:
        out.append((f'api-expr {text}', absyn.build(absyn.lift(e))))
    except Exception as ex:  # noqa: BLE001
        if r is not None:
            r.notes['api build rejected: ' + type(ex).__name__] += 1
    if sort == 'B':
        st, p = impl.try_parse('pred', '{ ' + text + ' }')
        if st == 'ok':
            out.append((f'pred {{ {text} }}', p))
            # events built through the API: they exist without a property-level sanity check,
            # so free references are possible in every slot
            import hpl.ast as A

            for alias in (None, RN('a'), 'zz'):
                try:
                    e1 = A.HplSimpleEvent.publish('t', predicate=p, alias=alias)
                    out.append((f'api-event t as {alias} {{ {text} }}', e1))
                    e2 = A.HplEventDisjunction(A.HplSimpleEvent.publish('u', alias=RN('b')), A.HplEventDisjunction(e1, A.HplSimpleEvent.publish('w')))
                    out.append((f'api-disjunction (u as b or (t as {alias} {{ {text} }} or w))', e2))
                    # alternatives that each have references of their own, in both orders
                    q1 = impl.parser('pred').parse('{ x > @k1.f }')
                    q2 = impl.parser('pred').parse('{ forall i in @k2.xs: @i > @k3.f }')
                    e3 = A.HplEventDisjunction(A.HplSimpleEvent.publish('u', predicate=q1), A.HplEventDisjunction(e1, A.HplSimpleEvent.publish('w', predicate=q2, alias='k2')))
                    out.append((f'api-disjunction (u {{x > @k1.f}} or (t as {alias} {{ {text} }} or w as k2 {{...@k2, @k3}}))', e3))
                    e4 = A.HplEventDisjunction(A.HplEventDisjunction(A.HplSimpleEvent.publish('w', predicate=q2), e1), A.HplSimpleEvent.publish('u', predicate=q1, alias='k1'))
                    out.append((f'api-disjunction ((w {{...}} or t as {alias} {{ {text} }}) or u as k1 {{x > @k1.f}})', e4))
                except Exception as ex:  # noqa: BLE001
                    if r is not None:
                        r.notes['api event rejected: ' + type(ex).__name__] += 1
        for ev_text in (f't {{ {text} }}', f't as {RN("a")} {{ {text} }}', f'( t as {RN("a")} {{ {text} }} or u as {RN("b")} or w )'):
            ptext = f'after s as {RN("b")}: no {ev_text}'
            st, prop = impl.try_parse('prop', ptext)
            if st == 'ok':
                out.append((f'event {ev_text}', prop.pattern.behaviour))
                out.append((f'pattern {ptext}', prop.pattern))
                out.append((f'property {ptext}', prop))
            elif r is not None:
                r.notes['property rejected:' + st] += 1
    return out


DEEP_SLOTS = [
    # a quantifier inside another quantifier's domain (range bound, set element) - only through int(bool)
    'forall i in [0 to int((exists a in ys: @a > 0))]: xs[@i] > 0',
    'exists i in {int((forall a in ys: @a > @b.f)), 1}: @i > 0',
    'forall i in [int((exists j in [0 to int((exists a in zs: @a > 0))]: @j > 0)) to 3]: @i > 0',
    # a quantifier inside an index, a function argument, a set element, a range bound of `in`
    'xs[int((exists a in ys: @a > 0))] > 0',
    'abs(int((forall a in @b.xs: @a > 0))) > 0',
    'x in {int((exists a in ys: @a > @B.f)), 2}',
    'x in [0 to int((forall a in ys: (exists i in zs: @i > @a)))]',
    # markers below several accessors / inside nested indices
    'm.n[xs[@a.k]].f > 0', '@a.m.n[@b.k[@a.j]].f = @a.g', 'xs[ys[zs[@a]]] > 0', 'xs[-(@a.k + len({@b.j, 1}))] > 0',
    # the same name free in one place and bound in another
    '@a > 0 and (forall a in xs: @a > 0)', '(exists a in xs: @a > 0) or @a.f > 0', 'forall i in @a.xs: (exists a in ys: @a > @i)',
]


def event_family():
    """Scope / pattern / property / specification level iterate() and aliases()."""
    texts = []
    for sk in ('globally', 'after s as S', 'until e as E {x > 1}', 'after (s as S or s2 as S2 {p}) until (e or e2 as E2)'):
        for pat in ('no b as B', 'some (b or b2 as B2 or b3 {x = 1})', 'g as G causes (b {forall a in xs: @a > @G.f} or c as C)',
                    'b as B requires (g {x > @B.f} or h as H)', '(g as G or h as H) forbids b {@G.f in {1, @H.f}} within 100 ms'):
            texts.append(f'{sk}: {pat}')
    return texts


def run(unit):
    r = Result()
    if unit[0] == 'deep':
        for text in DEEP_SLOTS:
            r.count('evaluations')
            st, e = impl.try_parse('expr', text)
            if st != 'ok':
                r.notes['deep-slot text rejected:' + st] += 1
                continue
            objs = [(f'expr {text}', e)]
            try:
                objs.append((f'api-expr {text}', absyn.build(absyn.lift(e))))
            except Exception as ex:  # noqa: BLE001
                r.notes['deep-slot api build rejected: ' + type(ex).__name__] += 1
            st, p = impl.try_parse('pred', '{ ' + text + ' }')
            if st == 'ok':
                objs.append((f'pred {{ {text} }}', p))
            for label, o in objs:
                for sub in W.preorder(o):
                    if hasattr(sub, 'data_type') or W.cname(sub).startswith('HplPredicate'):
                        r.count('states')
                        for kind, detail in check_object(sub, f'sub-object {W.cname(sub)} of {label}', r):
                            r.violation(kind + ' (deep slot)', {'deep': text}, detail, size=len(text))
                for dlabel, d in derived_objects(o, label):
                    r.count('states')
                    for kind, detail in check_object(d, dlabel, r):
                        r.violation(kind + ' (object derived from a queried one)', {'deep': text}, detail, size=len(text))
            r.count('validated')
        r.sample({'deep_slot': DEEP_SLOTS[0]})
        return r
    if unit[0] == 'events':
        props_ = []
        for text in event_family():
            r.count('evaluations')
            st, prop = impl.try_parse('prop', text)
            if st != 'ok':
                r.notes['event-family rejected:' + st] += 1
                continue
            props_.append(text)
            objs = [('property', prop), ('scope', prop.scope), ('pattern', prop.pattern)]
            for e in (prop.scope.activator, prop.scope.terminator, prop.pattern.trigger, prop.pattern.behaviour):
                if e is not None:
                    objs.append(('event', e))
            for label, o in objs:
                r.count('states')
                for kind, detail in check_object(o, f'{label} of {text}', r):
                    r.violation(kind, {'text': text, 'label': label}, detail, size=len(text))
        spec_text = '\n'.join(f'# id: p{k}\n{t}' for k, t in enumerate(props_[:6]))
        st, spec = impl.try_parse('spec', spec_text)
        if st == 'ok':
            r.count('states')
            for kind, detail in check_object(spec, 'specification', r):
                r.violation(kind, {'text': spec_text, 'label': 'specification'}, detail, size=len(spec_text))
        r.sample({'property': event_family()[-1]})
        return r
    sort, n, k, shards = unit
    g = grammar()
    for i, t in enumerate(g.stream(sort, n)):
        if i % shards != k:
            continue
        r.count('evaluations')
        objs = objects_for(t, sort, r)
        for label, o in objs:
            r.count('states')
            for kind, detail in check_object(o, label, r):
                r.violation(kind, {'term': t, 'sort': sort, 'label': label.split(' ')[0]}, detail, size=absyn.size(t))
            # E4 depth 2: derive from the (now queried) object, query the copy
            for dlabel, d in derived_objects(o, label):
                r.count('states')
                for kind, detail in check_object(d, dlabel, r):
                    r.violation(kind + ' (object derived from a queried one)', {'term': t, 'sort': sort, 'label': label.split(' ')[0]}, detail, size=absyn.size(t))
        if objs:
            r.count('validated')
        if i % 3001 == 0 and objs:
            r.sample({'object': objs[-1][0]})
        if n <= 4 or any(u[0] == 'quant' for u in absyn.subterms(t)):
            # name family: related names of several letters (item / it / tem: prefix, suffix, shared characters)
            RENAME.update({'a': 'item', 'b': 'it', 'i': 'tem'})
            try:
                for label, o in objects_for(t, sort, r):
                    r.count('states')
                    for kind, detail in check_object(o, label, r):
                        r.violation(kind + ' [names with several letters]', {'term': t, 'sort': sort, 'label': label.split(' ')[0], 'rename': dict(RENAME)}, detail, size=absyn.size(t))
            finally:
                RENAME.clear()
    return r


def replay(w):
    from hplmc.checks.c08 import _detuple

    out = []
    if 'deep' in w:
        return [{'sig': v['sig'], 'detail': v['detail']} for v in run(('deep',)).violations]
    if 'term' in w:
        RENAME.clear()
        RENAME.update(w.get('rename') or {})
        for label, o in objects_for(_detuple(w['term']), w['sort']):
            out += [{'sig': k, 'detail': d} for k, d in check_object(o, label)]
            for dlabel, d in derived_objects(o, label):
                out += [{'sig': k, 'detail': dd} for k, dd in check_object(d, dlabel)]
    else:
        r = run(('events',))
        out = [{'sig': v['sig'], 'detail': v['detail']} for v in r.violations]
    return out


def describe(tier):
    b = bounds(tier)
    return {
        'rule': f"every Bool/Num term with <= {b['nodes']} nodes over atoms x @a @a.f @b.f m.f 1 p @a.p xs @a.xs with + ** = < and implies not unary-minus abs len sum max int(bool), sets (1-3), ranges, indexing xs[..], inclusion, forall/exists binding a or i over arrays/sets/ranges: markers therefore occur in every child slot of every expression node kind; each accepted term is taken as expression (parser and API), predicate, event without alias / with alias a / zz, 3-wide event disjunction, pattern and property; plus 14 texts that put quantifiers and markers into slots the node bound does not reach (a quantifier inside another quantifier's domain, inside an index, a function argument, a set element; markers below several accessors; one name free and bound), every sub-object of which is queried; plus a family of 20 multi-event properties and a specification for scope/pattern/property/specification-level iterate() and aliases(). Every queried expression / predicate / event is then copied (replace_var_reference, replace_self_reference, negate, but) and the copy is queried too (call sequences of depth 2). Terms with <= 4 nodes and all terms with a quantifier are repeated with the one-letter names replaced by item / it / tem (prefix, suffix, shared characters; the single characters are queried too). Containers returned by external_references() / aliases() are modified by the harness and the query is repeated. A state = one real object queried; a transition = one group of query calls on it.",
        'bounds': b,
        'exhaustive': True,
        'assumptions': ['attrs.fields() order is declaration order; the generic walk treats every AST-valued field as a child'],
    }
