"""C16 - ASTs are immutable values: no API call changes an existing tree.

Explicit-state exploration (E4).  A state is an object pool: a base AST, all its
sub-objects, and every object returned by an earlier call.  A transition is one
API call on one pool member: printers, hash / ==, children / iterate, the
reference queries, is_fully_typed, cast to each base type and derived union,
but() with the identical and with a changed value for every field, reshape and
the replacements, negate / join, simplify, split_and, refactor_reference,
canonical_form, simple_events / aliases, the property-level schema check.
Every call is followed by a comparison of the deep snapshot (typed lift incl.
data_type of every node, metadata, hash) of every pool object with the one
taken before.  Sequences of state-changing calls up to the depth bound; states
deduplicated on the set of typed lifts in the pool.
"""

from __future__ import annotations

import attrs

from hplmc import absyn, impl, props, schemas
from hplmc.core import Result, chunks
from hplmc.ref import walk as W
from hplmc.universe import FALSE, TRUE, Grammar, alias_field, num, this_field

ID = 'C16'
tf = this_field
NSHARD = 64


def bounds(tier):
    if tier == 'quick':
        return {'nodes': 3, 'depth': 2, 'family_depth': 2}
    return {'nodes': 4, 'depth': 2, 'family_depth': 3}


def grammar():
    atoms = {
        'N': [tf('x'), alias_field('A', 'x'), num(0), num(2)],
        'B': [tf('p'), alias_field('A', 'p'), TRUE],
        'A': [tf('xs')],
    }
    return Grammar(
        atoms, arith=('+', '-', '*'), cmp=('=', '<'), conn=('and', 'or', 'implies', 'iff'),
        funcs={'abs': ('N', 'N'), 'len': ('A', 'N'), 'sum': ('SET', 'N'), 'prod': ('SET', 'N'), 'max': ('SET', 'N')},
        quants=('forall', 'exists'), domains=('A', 'SET'), set_widths=(1, 2), range_flags=((False, False),),
        inclusion=('A', 'SET', 'R'), index=True, eq_sorts=('N', 'B'),
    )


FAMILY = [
    'sum({x}) > 0', 'prod({x, 2}) = y', 'max({x, 1, 2}) < y', 'min({x, y, 1, 3}) > 0', 'sum({x, y, 1}) + 1 > 0', 'len({x, y}) = 2',
    'p implies q', 'p iff q', 'not (p or q)', 'not (p implies @A.p)', 'forall i in xs: (@i > 0 and @A.x > 0)', 'forall i in xs: (p and @i > x)',
    'not exists i in xs: (@i > 0 or @A.p)', 'x - -y > 0', 'x * -1 < y', '1 < x', '@A.x < x', '(x + 1) + (y + 2) > 0', 'x in {y, 1}', 'x in [y to 2]',
    'xs[x] > xs[0]', 'm.f = @A.m.f', 'p and (q and p)', 'p or not p', 'abs(x) > abs(-y)', 's = "a" and p',
    'x < NAN or y = 1', 'x = 0 and y = 1.0', 'roll(@A) > INF',
]

PROPERTIES = [
    '# id: p1 # title: "t" globally: no a {x > 1}',
    '# id: p2 after s as S until e: (a or b as B {x = @S.x}) forbids c {sum({x}) > @S.x} within 100 ms',
    '# id: p3 globally: (a as A or b as A) causes (c {x = @A.x} or d)',
    '# id: p4 until e {p implies q}: b requires (a or c {forall i in xs: @i > 0})',
    'after (s or s2): some (a or b)',
]


def plan(tier):
    b = bounds(tier)
    units = []
    for sort in ('B', 'N'):
        for n in range(1, b['nodes'] + 1):
            sh = 1 if n <= 2 else NSHARD
            units += [('terms', tier, sort, n, k, sh) for k in range(sh)]
    units += [('family', tier, i) for i in range(len(FAMILY))]
    units += [('props', tier, i) for i in range(len(PROPERTIES))]
    units += [('api', tier, i) for i in range(6)]
    units += [('twins', tier, i) for i in range(len(TWIN_BUILDERS))]
    return units


# ---------------------------------------------------------------------------
# snapshots
# ---------------------------------------------------------------------------


def deep_meta(obj):
    """Metadata of every object in the tree, in pre-order (contents only)."""
    out = []
    for o in W.preorder(obj):
        m = object.__getattribute__(o, 'metadata')
        out.append(tuple(sorted((str(k), repr(v)) for k, v in m.items())))
    return tuple(out)


def snap(obj):
    try:
        h = hash(obj)
    except Exception as e:  # noqa: BLE001
        h = 'unhashable:' + type(e).__name__
    return (absyn.canon(absyn.lift(obj, typed=True)), deep_meta(obj), h)


def is_ast(x):
    from hpl.ast.base import HplAstObject

    return isinstance(x, HplAstObject)


def flatten_results(res):
    out = []
    if is_ast(res):
        out.append(res)
    elif isinstance(res, (list, tuple)):
        for x in res:
            out += flatten_results(x)
    return out


# ---------------------------------------------------------------------------
# the call alphabet
# ---------------------------------------------------------------------------


def _cast_types():
    from hpl.types import DataType as D

    return [('BOOL', D.BOOL), ('NUMBER', D.NUMBER), ('STRING', D.STRING), ('ARRAY', D.ARRAY), ('RANGE', D.RANGE), ('SET', D.SET), ('MESSAGE', D.MESSAGE),
            ('PRIMITIVE', D.PRIMITIVE), ('ITEM', D.ITEM), ('COMPOUND', D.COMPOUND), ('ANY', D.ANY), ('NONE', D.NONE)]


def changed_value(obj, f, pool):
    """A different, plausible value for field f of obj (None = no alternative)."""
    v = object.__getattribute__(obj, f.name)
    if f.name == 'data_type':
        return None  # narrowing is cast()'s business
    if is_ast(v):
        # another pool object of the same class family
        for o in pool:
            if o is not v and type(o).__mro__[1] is type(v).__mro__[1] and o is not obj:
                return o
        return None
    if isinstance(v, tuple) and v and all(is_ast(x) for x in v):
        return tuple(reversed(v)) if len(v) > 1 else None
    if isinstance(v, bool):
        return not v
    if f.name == 'value' and isinstance(v, (int, float)):
        # an equal-looking value of another type (1 / True / 1.0) and a really different one
        return {1: True, 0: False}.get(v, v + 1) if isinstance(v, int) else (v + 0.5 if v == v else 0.0)
    if isinstance(v, str):
        if f.name == 'token' and type(obj).__name__ == 'HplVarReference':
            return '@other' if v != '@other' else '@another'
        if f.name in ('variable',):
            return None
        return v + '2' if f.name in ('field', 'name', 'alias') else None
    if isinstance(v, float) and f.name == 'max_time':
        return 7.0 if v != 7.0 else 8.0
    if v is None and f.name == 'alias':
        return 'NEWALIAS'
    if f.name == 'alias' and isinstance(v, str):
        return v + '2'
    return None


_GENERIC = {}


def generic_queries(obj):
    import inspect

    cls = type(obj)
    names = _GENERIC.get(cls)
    if names is None:
        names = []
        for name in dir(cls):
            if name.startswith('_') or name in ('but', 'children', 'iterate'):
                continue
            attr = inspect.getattr_static(cls, name)
            if isinstance(attr, property):
                names.append((name, 'property'))
            elif inspect.isfunction(attr):
                try:
                    params = list(inspect.signature(attr).parameters.values())[1:]
                except (TypeError, ValueError):
                    continue
                if all(p.default is not inspect.Parameter.empty or p.kind in (p.VAR_POSITIONAL, p.VAR_KEYWORD) for p in params):
                    names.append((name, 'method'))
        _GENERIC[cls] = names
    out = []
    for name, how in names:
        if how == 'property':
            out.append((f'.{name}', lambda name=name: getattr(obj, name)))
        else:
            def call(name=name):
                res = getattr(obj, name)()
                return list(res) if hasattr(res, '__next__') else res
            out.append((f'.{name}()', call))
    return out


def ops_for(obj, pool, msg_types, passive=(), probes=True):
    """(name, thunk) for every call of the alphabet that applies to obj."""
    import hpl.rewrite as R
    import hpl.ast as A

    n = type(obj).__name__
    is_expr = hasattr(obj, 'data_type')
    is_pred = n in ('HplPredicateExpression', 'HplVacuousTruth', 'HplContradiction')
    is_event = n in ('HplSimpleEvent', 'HplEventDisjunction')
    ops = [
        ('str', lambda: str(obj)), ('repr', lambda: repr(obj)), ('hash', lambda: hash(obj)), ('==', lambda: obj == obj),
        ('children', lambda: obj.children()), ('iterate', lambda: list(obj.iterate())),
    ]
    for o in pool[:3]:
        ops.append(('== other', lambda o=o: (obj == o, o == obj)))
    if probes:
        # every public property and every public method that needs no argument, found by introspection
        # (uid, is_* flags, data_type queries, iterators ...): a query must not write anything
        ops += generic_queries(obj)
    if is_expr or is_pred or is_event:
        ops += [('external_references', lambda: obj.external_references()), ('contains_reference', lambda: obj.contains_reference('A')),
                ('contains_self_reference', lambda: obj.contains_self_reference())]
    if is_expr:
        ops += [('contains_definition', lambda: obj.contains_definition('i')), ('is_fully_typed', lambda: obj.is_fully_typed())]
        for name, t in _cast_types():
            ops.append((f'cast({name})', lambda t=t: obj.cast(t)))
        ops += [
            ('reshape(identity)', lambda: obj.reshape(lambda e: e, deep=True)),
            ('replace_self_reference', lambda: obj.replace_self_reference(A.HplVarReference('@Z'))),
            ('replace_var_reference', lambda: obj.replace_var_reference('A', A.HplThisMessage())),
            ('simplify', lambda: R.simplify(obj)),
            ('replace_this_with_var', lambda: R.replace_this_with_var(obj, 'Z')),
            ('replace_var_with_this', lambda: R.replace_var_with_this(obj, 'A')),
            ('type_check_references', lambda: obj.type_check_references(msg_types['t'], {'A': msg_types['t'], 'S': msg_types['t']})),
        ]
        from hplmc.ref import types as T

        # constructors of every node class around the existing object (where its type allows it)
        names = T.names_of(int(obj.data_type.value))
        xs_ = lambda: A.HplFieldAccess(A.HplThisMessage(), 'xs')  # noqa: E731
        one = lambda: A.HplLiteral('1', 1)  # noqa: E731
        if not probes:
            names = frozenset()
        if 'NUMBER' in names:
            ops += [('HplArrayAccess(xs, obj)', lambda: A.HplArrayAccess(xs_(), obj)), ('HplRange(obj, 1)', lambda: A.HplRange(obj, one())),
                    ('HplUnaryOperator(-, obj)', lambda: A.HplUnaryOperator('-', obj)), ('HplBinaryOperator(+, obj, 1)', lambda: A.HplBinaryOperator('+', obj, one())),
                    ('HplBinaryOperator(<, 1, obj)', lambda: A.HplBinaryOperator('<', one(), obj)), ('HplFunctionCall(abs, obj)', lambda: A.HplFunctionCall('abs', (obj,)))]
        if names & T.PRIMITIVE:
            ops += [('HplSet((obj, 1))', lambda: A.HplSet((obj, one()))), ('HplBinaryOperator(=, obj, 1)', lambda: A.HplBinaryOperator('=', obj, one())),
                    ('HplBinaryOperator(in, obj, xs)', lambda: A.HplBinaryOperator('in', obj, xs_())), ('HplFunctionCall(str, obj)', lambda: A.HplFunctionCall('str', (obj,)))]
        if 'MESSAGE' in names:
            ops += [('HplFieldAccess(obj, f)', lambda: A.HplFieldAccess(obj, 'f')), ('HplFunctionCall(yaw, obj)', lambda: A.HplFunctionCall('yaw', (obj,)))]
        if 'ARRAY' in names:
            ops += [('HplArrayAccess(obj, 1)', lambda: A.HplArrayAccess(obj, one())), ('HplFunctionCall(len, obj)', lambda: A.HplFunctionCall('len', (obj,))),
                    ('HplQuantifier(forall i in obj)', lambda: A.HplQuantifier('forall', 'i', obj, A.HplBinaryOperator('>', A.HplVarReference('@i'), one())))]
        if T.names_of(int(obj.data_type.value)) == T.B:
            ops += [('split_and', lambda: R.split_and(obj)), ('refactor_reference', lambda: R.refactor_reference(obj, 'A')),
                    ('get_conjuncts', lambda: R.get_conjuncts(obj)), ('predicate_from_expression', lambda: A.predicate_from_expression(obj)),
                    ('Not(obj)', lambda: A.Not(obj)), ('And(obj, obj)', lambda: A.And(obj, obj))]
    if is_pred:
        ops += [('is_fully_typed', lambda: obj.is_fully_typed()), ('negate', lambda: obj.negate()), ('simplify', lambda: R.simplify(obj)),
                ('split_and', lambda: R.split_and(obj)), ('refactor_reference', lambda: R.refactor_reference(obj, 'A')),
                ('replace_this_with_var', lambda: R.replace_this_with_var(obj, 'Z')), ('replace_var_with_this', lambda: R.replace_var_with_this(obj, 'A')),
                ('event from predicate', lambda: A.HplSimpleEvent.publish('t', predicate=obj, alias='A'))]
        partners = [o for o in pool if o is not obj and type(o).__name__ in ('HplPredicateExpression', 'HplVacuousTruth', 'HplContradiction')][:1]
        for o in partners + list(passive):
            ops.append(('join', lambda o=o: obj.join(o)))
            ops.append(('join (reversed)', lambda o=o: o.join(obj)))
    if is_event:
        ops += [('aliases', lambda: obj.aliases()), ('simple_events', lambda: list(obj.simple_events())),
                ('replace_var_reference', lambda: obj.replace_var_reference('S', A.HplThisMessage()))]
    if n == 'HplProperty':
        ops += [('HplSpecification((obj,))', lambda: A.HplSpecification((obj,))), ('HplSpecification((obj, obj))', lambda: A.HplSpecification((obj, obj))),
                ('canonical_form', lambda: R.canonical_form(obj)), ('is_fully_typed', lambda: obj.is_fully_typed()), ('sanity_check', lambda: obj.sanity_check()),
                ('type_check_references', lambda: obj.type_check_references(msg_types)), ('events', lambda: list(obj.events()))]
    if n == 'HplSpecification':
        ops += [('sanity_check', lambda: obj.sanity_check())]
    # but(): identical and changed value for every field
    for f in attrs.fields(type(obj)):
        if f.name == 'metadata':
            continue
        ops.append((f'but({f.name}=same)', lambda f=f: _but_same(obj, f)))
        cv = changed_value(obj, f, pool)
        if cv is not None:
            ops.append((f'but({f.name}=changed)', lambda f=f, cv=cv: _but_changed(obj, f, cv)))
        if object.__getattribute__(obj, f.name) is not None and f.name in ('alias', 'activator', 'terminator', 'trigger'):
            # clearing an optional field is a change like any other
            ops.append((f'but({f.name}=None)', lambda f=f: _but_cleared(obj, f)))
    if is_expr and probes and T_is_bool(obj):
        # a quantifier built around the existing condition, binding each of its free variables
        try:
            free = sorted(obj.external_references())
        except Exception:  # noqa: BLE001
            free = []
        for name in free[:2]:
            ops.append((f'HplQuantifier(forall {name} in {{1, 2}}: obj)', lambda name=name: A.HplQuantifier('forall', name, A.HplSet((A.HplLiteral('1', 1), A.HplLiteral('2', 2))), obj)))
            ops.append((f'HplQuantifier(exists {name} in [0 to 3]: obj)', lambda name=name: A.HplQuantifier('exists', name, A.HplRange(A.HplLiteral('0', 0), A.HplLiteral('3', 3)), obj)))
    if type(obj).__name__ == 'HplQuantifier' and probes:
        ops.append(('but(domain=set literal)', lambda: obj.but(domain=A.HplSet((A.HplLiteral('1', 1), A.HplLiteral('2', 2))))))
        ops.append(('but(domain=range literal)', lambda: obj.but(domain=A.HplRange(A.HplLiteral('0', 0), A.HplLiteral('3', 3)))))
        ops.append(('replace_var_reference inside', lambda: obj.replace_var_reference('A', A.HplFieldAccess(A.HplThisMessage(), 'zz'))))
    return ops


def T_is_bool(obj):
    from hplmc.ref import types as T

    try:
        return T.names_of(int(obj.data_type.value)) == T.B
    except Exception:  # noqa: BLE001
        return False


class ButProblem(Exception):
    pass


def _but_same(obj, f):
    v = object.__getattribute__(obj, f.name)
    r = obj.but(**{f.name: v})
    if r is not obj:
        raise ButProblem(f'but({f.name}=<the same value>) returned a different object')
    return None


def _but_cleared(obj, f):
    kwargs = {}
    for g in attrs.fields(type(obj)):
        if g.init:
            kwargs[g.name.lstrip('_')] = None if g.name == f.name else object.__getattribute__(obj, g.name)
    try:
        fresh = type(obj)(**kwargs)
    except Exception:  # noqa: BLE001
        fresh = None
    try:
        new = obj.but(**{f.name: None})
    except Exception:  # noqa: BLE001
        if fresh is not None:
            raise ButProblem(f'but({f.name}=None) raised although a fresh construction with those fields succeeds')
        return None
    if new is obj:
        raise ButProblem(f'but({f.name}=None) returned the object itself')
    if fresh is None:
        raise ButProblem(f'but({f.name}=None) returned an object although a fresh construction with those fields is rejected')
    if absyn.canon(absyn.lift(fresh, typed=True)) != absyn.canon(absyn.lift(new, typed=True)) or fresh != new:
        raise ButProblem(f'but({f.name}=None) differs from a fresh construction with those fields')
    return new


def _but_changed(obj, f, cv):
    new = obj.but(**{f.name: cv})
    if new is obj:
        raise ButProblem(f'but({f.name}=<changed>) returned the object itself')
    # equal to a fresh construction with those fields
    kwargs = {}
    for g in attrs.fields(type(obj)):
        if not g.init:
            continue
        kwargs[g.name.lstrip('_')] = cv if g.name == f.name else object.__getattribute__(obj, g.name)
    try:
        fresh = type(obj)(**kwargs)
    except Exception:  # noqa: BLE001
        fresh = None
    if fresh is not None:
        if absyn.canon(absyn.lift(fresh, typed=True)) != absyn.canon(absyn.lift(new, typed=True)) or fresh != new or hash(fresh) != hash(new):
            raise ButProblem(f'but({f.name}=<changed>) differs from a fresh construction with those fields')
    if new.metadata != obj.metadata:
        raise ButProblem(f'but({f.name}=<changed>) lost or changed the metadata')
    if new.metadata is obj.metadata:
        raise ButProblem(f'but({f.name}=<changed>) shares the metadata dictionary')
    return new


# ---------------------------------------------------------------------------
# exploration
# ---------------------------------------------------------------------------


def explore(base, label, depth, r, msg_types):
    """Returns list of problems; explores call sequences from one base object."""
    problems = []
    root_members = [base]
    for o in W.preorder(base)[1:]:
        if all(o is not m for m in root_members):
            root_members.append(o)
    root_members = root_members[:14]
    passive = []
    if type(base).__name__ in ('HplPredicateExpression', 'HplVacuousTruth', 'HplContradiction'):
        # partners for join(): the same names used at other (compatible and incompatible) types;
        # they are snapshotted like every pool member but are not themselves targets of calls
        for ptxt in ('{ x > 0 }', '{ p or @A.p }', '{ not x }', '{ y = x }'):
            passive.append(impl.fresh_parser('pred').parse(ptxt))
    base.metadata['k'] = 'v'  # metadata is a mutable annotation by design; set before the first snapshot
    seen = set()
    frontier = [(root_members, ())]
    for d in range(depth):
        nxt = []
        for pool, hist in frontier:
            before = [snap(o) for o in pool + passive]
            key = frozenset(s[0] for s in before)
            if key in seen:
                continue
            seen.add(key)
            r.count('states')
            for ti, target in enumerate(pool):
                for name, thunk in ops_for(target, pool, msg_types, passive, probes=(d == 0)):
                    r.count('transitions')
                    try:
                        res = thunk()
                        r.outcomes[name.split('(')[0] + ':ok'] += 1
                    except ButProblem as e:
                        problems.append((f'but: {e}', f'{label}: {" ; ".join(hist)} ; {name} on {type(target).__name__}'))
                        res = None
                    except Exception as e:  # noqa: BLE001
                        r.outcomes[name.split('(')[0] + ':raised'] += 1
                        res = None
                    after = [snap(o) for o in pool + passive]
                    if after != before:
                        idx = [i for i, (a, b_) in enumerate(zip(after, before)) if a != b_][0]
                        what = 'hash' if after[idx][0] == before[idx][0] and after[idx][1] == before[idx][1] else ('metadata' if after[idx][0] == before[idx][0] else 'structure or stored types')
                        problems.append((f'{name.split("=")[0].rstrip("(")} changed an existing AST ({what})',
                                         f'{label}: after [{" ; ".join(hist)}] the call {name} on {type(target).__name__} «{_s(target)}» changed «{_s((pool + passive)[idx])}» ({type((pool + passive)[idx]).__name__})'))
                        return problems  # the pool is corrupted: stop exploring this base
                    new = []
                    for o in flatten_results(res):
                        if all(o is not m for m in pool) and all(o is not m for m in new):
                            new.append(o)
                    # a returned copy must carry its own metadata dictionary, never the one of an existing object
                    if new:
                        old_ids = {}
                        for m in pool + passive:
                            for q in W.preorder(m):
                                old_ids.setdefault(id(object.__getattribute__(q, 'metadata')), q)
                        known = {id(q) for m in pool + passive for q in W.preorder(m)}
                        for o in new:
                            for q in W.preorder(o):
                                if id(q) in known:
                                    continue
                                mid = id(object.__getattribute__(q, 'metadata'))
                                if mid in old_ids and old_ids[mid] is not q:
                                    problems.append((f'{name.split("=")[0].rstrip("(")} returned an object that shares the metadata dictionary of an existing one',
                                                     f'{label}: {name} on {type(target).__name__} «{_s(target)}»: the new {type(q).__name__} shares metadata with an existing {type(old_ids[mid]).__name__}'))
                                    break
                    # constructor probes only test that building a node around an object leaves it alone;
                    # their results do not open new states
                    if new and d + 1 < depth and not name.startswith('Hpl'):
                        k2 = key | frozenset(snap(o)[0] for o in new)
                        if k2 != key:
                            nxt.append((pool + new[:3], hist + (f'{name}@{ti}',)))
        frontier = nxt
    return problems


def _s(o):
    try:
        return str(o)[:80]
    except Exception:  # noqa: BLE001
        return type(o).__name__


def msg_types_for():
    sc = schemas.msg({'x': 'N', 'y': 'N', 'p': 'B', 'q': 'B', 's': 'S', 'xs': schemas.arr('N'), 'm': schemas.msg({'f': 'N'})})
    tok = schemas.to_token(sc, 'M')
    return {k: tok for k in 'abcdest'} | {'s2': tok, 'e2': tok}


def equality_ignores_metadata(kind, text):
    a = impl.parser(kind).parse(text)
    b = impl.parser(kind).parse(text)
    b.metadata['only-here'] = 1
    if not (a == b and hash(a) == hash(b)):
        return [('equality or hash depends on metadata', text)]
    # the documented annotations (id / title / description), present on one twin only, different on the two, and set
    # after the hash was first taken: equal values hash alike and collapse in a set
    for key in ('id', 'title', 'description'):
        a = impl.parser(kind).parse(text)
        b = impl.parser(kind).parse(text)
        c = impl.parser(kind).parse(text)
        h0 = hash(c)
        a.metadata[key] = 'one'
        b.metadata[key] = 'two'
        c.metadata[key] = 'three'
        if not (a == b == c and hash(a) == hash(b) == hash(c) == h0 and len({a, b, c}) == 1):
            return [('equality or hash depends on metadata', f'{text} [{key} = one / two / three]')]
    if kind == 'prop':
        import re

        bare = re.sub(r'^(\s*#\s*(id|title|description)\s*:\s*("[^"]*"|\S+)\s*)+', '', text)
        a = impl.parser(kind).parse('# id: one\n' + bare)
        b = impl.parser(kind).parse('# id: two\n# title: "t"\n' + bare)
        c = impl.parser(kind).parse(bare)
        if not (a == b == c and hash(a) == hash(b) == hash(c) and len({a, b, c}) == 1):
            return [('equality or hash depends on metadata', f'{text} [# id: one / # id: two, # title / no annotation]')]
    return []


def api_bases(i):
    """API-built nodes around deliberately wide children (shared between parents)."""
    import hpl.ast as A

    v = A.HplVarReference('@v')
    w = A.HplVarReference('@w')
    f = A.HplFieldAccess(A.HplThisMessage(), 'fld')
    if i == 0:
        return A.HplSet((v, w, f)), 'HplSet((@v, @w, fld))'
    if i == 1:
        return A.HplBinaryOperator('=', v, f), '@v = fld'
    if i == 2:
        return A.HplFunctionCall('len', (f,)), 'len(fld)'
    if i == 3:
        return A.HplBinaryOperator('in', v, A.HplSet((w, A.HplLiteral('1', 1)))), '@v in {@w, 1}'
    if i == 4:
        return A.HplRange(v, f), '[@v to fld]'
    return A.HplQuantifier('forall', 'i', f, A.HplBinaryOperator('=', A.HplVarReference('@i'), v)), 'forall i in fld: @i = @v'


TWIN_BUILDERS = ['x', '@A.x', '@v', 'xs[0]', 'xs[@i]', 'm.f', 'x + y', '{x, 1}', '[0 to x]', 'abs(x)', 'not p', 'forall i in xs: @i > x', '1', '"a"',
                 ('pred', '{ x > 0 and (p or @A.q) }'), ('pred', '{ not (p implies forall i in xs: @i > 0) }'),
                 ('prop', 'after s as A: (b or c {x > @A.x}) causes d within 1 s'), ('prop', 'globally: no (a {p} or b as B)'), ('prop', 'after (s1 or s2) until e: (t1 or t2) requires u')]


def twins(i, r):
    """Histories of length 2 over two equal, separately built nodes that carry different metadata: a call on
    the first, then a call on the second; nothing obtained earlier may change, and a cast result carries a copy
    of the metadata of the node it was made from."""
    import hpl.ast as A

    text = TWIN_BUILDERS[i]
    kind = 'expr'
    if isinstance(text, tuple):
        kind, text = text
    problems = []

    def fresh(tag):
        # a parse of its own: on the unchanged tree no object is shared with anything built before
        n = impl.parser(kind).parse(text)
        n.metadata['src'] = tag
        if kind == 'prop':
            n.metadata['id'] = 'id_' + tag
        return n

    def menu_other(n):
        import hpl.rewrite as R

        if kind == 'pred':
            other = impl.parser('pred').parse('{ y > 1 }')
            return [('negate', lambda: n.negate()), ('join', lambda: n.join(other)), ('join (reversed)', lambda: other.join(n)), ('simplify', lambda: R.simplify(n)), ('split_and', lambda: R.split_and(n)),
                    ('refactor_reference', lambda: R.refactor_reference(n, 'A')), ('replace_this_with_var', lambda: R.replace_this_with_var(n, 'Z')), ('replace_var_with_this', lambda: R.replace_var_with_this(n, 'A')),
                    ('event from predicate', lambda: A.HplSimpleEvent.publish('t', predicate=n, alias='Q')), ('str', lambda: str(n)), ('hash', lambda: hash(n))]
        scope, pattern = n.scope, n.pattern
        return [('canonical_form', lambda: R.canonical_form(n)), ('but(scope)', lambda: n.but(scope=A.HplScope.globally())),
                ('but(pattern)', lambda: n.but(pattern=A.HplPattern.absence(A.HplSimpleEvent.publish('zz')))), ('sanity_check', lambda: n.sanity_check()), ('events', lambda: list(n.events())),
                ('is_fully_typed', lambda: n.is_fully_typed()), ('str', lambda: str(n)), ('hash', lambda: hash(n)), ('pattern.but(max_time)', lambda: pattern.but(max_time=9.0)),
                ('scope.but(activator)', lambda: scope.but(activator=A.HplSimpleEvent.publish('zz')) if scope.activator is not None else None)]

    def menu(n):
        if kind != 'expr':
            return menu_other(n)
        ops = [(f'cast({name})', lambda t=t: n.cast(t)) for name, t in _cast_types()]
        one = A.HplLiteral('1', 1)
        ops += [
            ('HplUnaryOperator(-, n)', lambda: A.HplUnaryOperator('-', n)), ('HplUnaryOperator(not, n)', lambda: A.HplUnaryOperator('not', n)),
            ('HplBinaryOperator(=, n, 1)', lambda: A.HplBinaryOperator('=', n, one)), ('HplBinaryOperator(<, 1, n)', lambda: A.HplBinaryOperator('<', one, n)),
            ('HplBinaryOperator(and, n, n)', lambda: A.HplBinaryOperator('and', n, n)), ('HplSet((n, 1))', lambda: A.HplSet((n, one))), ('HplRange(1, n)', lambda: A.HplRange(one, n)),
            ('HplArrayAccess(n, 1)', lambda: A.HplArrayAccess(n, one)), ('HplFieldAccess(n, f)', lambda: A.HplFieldAccess(n, 'f')), ('HplFunctionCall(len, n)', lambda: A.HplFunctionCall('len', (n,))),
            ('HplFunctionCall(abs, n)', lambda: A.HplFunctionCall('abs', (n,))), ('HplQuantifier(forall i in n)', lambda: A.HplQuantifier('forall', 'i', n, A.HplBinaryOperator('>', A.HplVarReference('@i'), one))),
            ('predicate_from_expression(n)', lambda: A.predicate_from_expression(n)), ('reshape(identity)', lambda: n.reshape(lambda e: e, deep=True)),
        ]
        return ops

    n_ops = len(menu(fresh('probe')))
    for i1 in range(n_ops):
        for i2 in range(n_ops):
            a, b = fresh('a'), fresh('b')
            r.count('states')
            name1, f1 = menu(a)[i1]
            name2, f2 = menu(b)[i2]
            held = [('first node', a), ('second node', b)]
            before = [snap(o) for _, o in held]
            for who, (name, fn, src) in (('first', (name1, f1, a)), ('second', (name2, f2, b))):
                r.count('transitions')
                try:
                    res = fn()
                except Exception as e:  # noqa: BLE001
                    r.outcomes[f'twins:{type(e).__name__}'] += 1
                    res = None
                after = [snap(o) for _, o in held]
                for (what_, _o), s0, s1 in zip(held, before, after):
                    if s0 != s1:
                        which = 'metadata' if s0[0] == s1[0] and s0[2] == s1[2] else 'structure, stored types or hash'
                        problems.append((f'{name.split("(")[0]} on an equal twin changed the {which} of an object obtained earlier', f'twins of «{text}»: {name1} on the first, {name2} on the second: {what_} changed after the call on the {who} ({s0[1][:2]} -> {s1[1][:2]})'))
                if res is not None and is_ast(res):
                    if name.startswith('cast') and res is not src:
                        m = object.__getattribute__(res, 'metadata')
                        if dict(m) != dict(src.metadata):
                            problems.append(('cast result does not carry a copy of the metadata of its source', f'twins of «{text}»: {name} on the {who}: {dict(m)} vs {dict(src.metadata)}'))
                        if m is src.metadata:
                            problems.append(('cast result shares the metadata dictionary of its source', f'twins of «{text}»: {name} on the {who}'))
                    held.append((f'result of {name} on the {who}', res))
                    after.append(snap(res))
                before = after
    return problems


def run(unit):
    r = Result()
    what, tier = unit[0], unit[1]
    b = bounds(tier)
    mt = msg_types_for()
    probs = []
    if what == 'terms':
        _, _, sort, n, k, shards = unit
        g = grammar()
        for i, t in enumerate(g.stream(sort, n)):
            if i % shards != k:
                continue
            text = absyn.expr_text(t)
            r.count('evaluations')
            for kind in (('expr', 'pred') if sort == 'B' else ('expr',)):
                st, obj = impl.try_parse(kind, text if kind == 'expr' else '{ ' + text + ' }')
                if st != 'ok':
                    continue
                for p in explore(obj, f'{kind} {text}', b['depth'], r, mt):
                    probs.append((p, {'kind': kind, 'text': text if kind == 'expr' else '{ ' + text + ' }', 'depth': b['depth']}, absyn.size(t)))
            r.count('validated')
            if i % 701 == 0:
                r.sample({'base': text})
    elif what == 'family':
        text = FAMILY[unit[2]]
        for kind, t2 in (('expr', text), ('pred', '{ ' + text + ' }')):
            r.count('evaluations')
            st, obj = impl.try_parse(kind, t2)
            if st != 'ok':
                r.notes['family rejected:' + st] += 1
                continue
            for p in explore(obj, f'{kind} {t2}', b['family_depth'], r, mt):
                probs.append((p, {'kind': kind, 'text': t2, 'depth': b['family_depth']}, len(t2)))
            for p in equality_ignores_metadata(kind, t2):
                probs.append((p, {'kind': kind, 'text': t2, 'depth': 0}, len(t2)))
        r.sample({'base': text})
    elif what == 'props':
        text = PROPERTIES[unit[2]]
        r.count('evaluations')
        st, obj = impl.try_parse('prop', text)
        if st == 'ok':
            for p in explore(obj, f'property {text}', b['depth'], r, mt):
                probs.append((p, {'kind': 'prop', 'text': text, 'depth': b['depth']}, len(text)))
            for p in equality_ignores_metadata('prop', text):
                probs.append((p, {'kind': 'prop', 'text': text, 'depth': 0}, len(text)))
        r.sample({'base': text})
    elif what == 'twins':
        r.count('evaluations')
        for p in twins(unit[2], r):
            probs.append((p, {'twins': unit[2]}, 3))
        r.sample({'twins': str(TWIN_BUILDERS[unit[2]])})
    else:
        r.count('evaluations')
        obj, label = api_bases(unit[2])
        for p in explore(obj, f'api {label}', b['depth'], r, mt):
            probs.append((p, {'api': unit[2], 'depth': b['depth']}, 5))
    seen = set()
    for (kind, detail), wit, size in probs:
        if kind in seen:
            continue
        seen.add(kind)
        r.violation(kind, wit, detail, size=size)
    return r


def replay(w):
    r = Result()
    mt = msg_types_for()
    if 'twins' in w:
        return [{'sig': k, 'detail': d} for k, d in twins(w['twins'], r)]
    if 'api' in w:
        obj, label = api_bases(w['api'])
    else:
        obj = impl.parser(w['kind']).parse(w['text'])
        label = w['text']
    out = [{'sig': k, 'detail': d} for k, d in explore(obj, label, max(1, w.get('depth', 2)), r, mt)]
    if 'text' in w:
        out += [{'sig': k, 'detail': d} for k, d in equality_ignores_metadata(w['kind'], w['text'])]
    return out


def describe(tier):
    b = bounds(tier)
    return {
        'rule': f"bases: parser results for every Bool/Num term with <= {b['nodes']} nodes (as expression and predicate), a 29-text family aimed at rewrites that build new parents around existing children (aggregates over sets, implications, negated disjunctions, quantifier splitting, operand flipping), 5 annotated properties, 6 API-built nodes around deliberately untyped shared children. Pool = base + up to 13 sub-objects + objects returned by earlier calls. Alphabet: ~45 calls per expression (printers, hash/==, children/iterate, 4 reference queries, is_fully_typed, cast to 12 type sets, but() same/changed per field, reshape, 2 replacements, simplify, split_and, refactor_reference, the this/var rewrites, constructors of every node class (operators, accessors, sets, ranges, function calls, quantifiers, predicates, events) around the object, schema check), predicate, event and property calls likewise. All sequences of <= {b['depth']} state-changing calls (family: {b['family_depth']}); plus histories of length 2 over twins (two equal, separately parsed objects with different metadata: 14 expression kinds, 2 predicates, 3 properties): every ordered pair of 26 calls (12 casts, 13 constructors around the node, reshape; predicates: 11 calls, properties: 10 calls), the first on one twin and the second on the other; Optional fields (alias, activator, terminator, trigger) are also cleared with but(field=None); boolean expressions are wrapped in a quantifier that binds one of their free variables; quantifiers get another domain. In the initial states every public property and every public no-argument method of each object's class (found by introspection) is also read / called. every call is followed by a deep snapshot comparison of every pool object.",
        'bounds': b,
        'exhaustive': True,
        'assumptions': ['metadata is a mutable annotation by design: the harness itself writes one key before the first snapshot'],
    }
