"""C17 - schema checking of references is exact.

(a/b) schema family x every valid path and every path invalid in exactly one
      way (unknown field at depth 1/2/3, field access on a primitive / array,
      index on a primitive / message, literal index = length and length+1 on a
      fixed array, declared type disjoint from the type the position requires)
      x every nesting site (top level, index expression, range bound, set
      element, function argument, quantifier domain and body, under not/and) x
      root (current message, alias) x property position.
(c)   MessageType.leaf_fields / get_type_of / contains_name vs a direct walk.
(d)   predefined integer tokens vs the two's-complement formula.
(e)   token constructor grids.
Oracle: independent resolver in hplmc/schemas.py.
"""

from __future__ import annotations

from hplmc import absyn, impl, schemas
from hplmc.core import Result
from hplmc.universe import num, this_field

ID = 'C17'
tf = this_field


def bounds(tier):
    return {'schemas': schemas.QUICK_SCHEMAS + ('fixed',) if tier == 'quick' else schemas.ALL_SCHEMAS, 'path_depth': 3 if tier == 'quick' else 4}


# ---------------------------------------------------------------------------
# nesting sites: R |-> Bool term, with the type the site requires of R
# ---------------------------------------------------------------------------

ZERO = num(0)


def sites(arr_field, alias_arr_field=None, inner=None):
    """name -> (required base type, builder)"""
    s = {
        'top': ('NUMBER', lambda R: ('bin', '>', R, ZERO)),
        'under-not-and': ('NUMBER', lambda R: ('bin', 'and', ('un', 'not', ('bin', '<', R, ZERO)), ('lit', 'True', True))),
        'arith': ('NUMBER', lambda R: ('bin', '=', ('bin', '+', ('un', '-', R), num(1)), ZERO)),
        'range-bound': ('NUMBER', lambda R: ('bin', 'in', ZERO, ('range', ZERO, R, False, False))),
        'set-element': ('NUMBER', lambda R: ('bin', 'in', ZERO, ('set', (num(1), ('bin', '+', R, ZERO))))),
        'function-argument': ('NUMBER', lambda R: ('bin', '>', ('call', 'abs', (R,)), ZERO)),
        'quantifier-body': ('NUMBER', lambda R: ('quant', 'forall', 'i', ('set', (num(1),)), ('bin', '>', ('var', 'i'), R))),
        'quantifier-domain-range': ('NUMBER', lambda R: ('quant', 'exists', 'i', ('range', ZERO, R, False, False), ('bin', '>', ('var', 'i'), ZERO))),
        'bool-top': ('BOOL', lambda R: ('bin', 'and', R, ('lit', 'True', True))),
        'bool-not': ('BOOL', lambda R: ('un', 'not', R)),
        'string-eq': ('STRING', lambda R: ('bin', '=', R, ('lit', '"a"', '"a"'))),
        # the same path twice: first at a loose position, then at a strict one (and the other way round)
        'loose-then-strict': ('NUMBER', lambda R: ('bin', 'and', ('bin', '=', R, R), ('bin', '>', R, ZERO))),
        'strict-then-loose': ('NUMBER', lambda R: ('bin', 'and', ('bin', '>', R, ZERO), ('bin', 'in', R, ('set', (R,))))),
        'loose-then-strict-bool': ('BOOL', lambda R: ('bin', 'and', ('bin', '!=', R, R), ('un', 'not', R))),
        'array-in': ('ARRAY', lambda R: ('bin', 'in', ZERO, R)),
        'array-len': ('ARRAY', lambda R: ('bin', '>', ('call', 'len', (R,)), ZERO)),
        'array-domain': ('ARRAY', lambda R: ('quant', 'forall', 'i', R, ('bin', '>', ('var', 'i'), ZERO))),
    }
    if inner is not None:
        # the index sits on an inner accessor of a longer chain:  ms[R].f  /  mm[R][0]
        s['inner-index-expression'] = ('NUMBER', lambda R: ('bin', '>', inner(R), ZERO))
    if alias_arr_field is not None:
        # an array of the aliased message indexed by a reference of the current one (and vice versa)
        s['index-into-other-message'] = ('NUMBER', lambda R: ('bin', '>', ('index', alias_arr_field, R), ZERO))
    if arr_field is not None:
        s['index-expression'] = ('NUMBER', lambda R: ('bin', '>', ('index', arr_field, R), ZERO))
        s['index-arith'] = ('NUMBER', lambda R: ('bin', '>', ('index', arr_field, ('bin', '+', R, num(1))), ZERO))
    return s


def inner_index_builder(sc, root):
    """R |-> a chain of the schema in which R indexes an inner accessor."""
    for node, t in schemas.paths(sc, root, 1):
        if not isinstance(t, str) and t[0] == 'arr' and t[2] != 0 and not isinstance(t[1], str):
            if t[1][0] == 'msg':
                for k, v in t[1][1].items():
                    if v == 'N':
                        return lambda R, node=node, k=k: ('field', ('index', node, R), k)
            elif t[1][0] == 'arr' and t[1][1] == 'N' and t[1][2] != 0:
                return lambda R, node=node: ('index', ('index', node, R), num(0))
    return None


def first_numeric_array(sc, root):
    for node, t in schemas.paths(sc, root, 1):
        if not isinstance(t, str) and t[0] == 'arr' and t[1] == 'N' and t[2] != 0:
            return node
    return None


def invalid_variants(node, t):
    """Paths derived from a valid path that are invalid in exactly one way."""
    out = []
    # unknown field in place of the last field
    if node[0] == 'field':
        out.append((('field', node[1], 'nope'), 'unknown field'))
    if isinstance(t, str):
        out.append((('field', node, 'f'), 'field access on a primitive'))
        out.append((('index', node, num(0)), 'index on a primitive'))
    elif t[0] == 'arr':
        out.append((('field', node, 'f'), 'field access on an array'))
        if t[2] >= 0 and isinstance(t[1], str):
            out.append((('index', node, num(t[2])), 'literal index = length'))
            out.append((('index', node, num(t[2] + 1)), 'literal index = length + 1'))
    else:
        out.append((('index', node, num(0)), 'index on a message'))
        out.append((('field', node, 'nope'), 'unknown field'))
    return out


def valid_extra(node, t):
    """More valid paths: in-range literal indices, any index on variable arrays."""
    out = []
    if not isinstance(t, str) and t[0] == 'arr' and isinstance(t[1], str):
        if t[2] < 0:
            out.append((('index', node, num(7)), t[1]))
        elif t[2] > 0:
            out.append((('index', node, num(t[2] - 1)), t[1]))
    return out


def _positions():
    """Every place an event's predicate can sit: scope position x scope kind x pattern kind (own-message paths),
    and every place from which an alias can reach it (alias-rooted paths)."""
    own, alias = {}, {}
    patterns = {'absence': 'no %s', 'existence': 'some %s', 'response': '%s causes w', 'response-behaviour': 'u causes %s', 'requirement': '%s requires w', 'requirement-trigger': 'u requires %s',
                'prevention': '%s forbids w', 'prevention-behaviour': 'u forbids %s'}
    ev = 't { %s }'
    # the event in the pattern, under each scope kind
    for pk, pt in patterns.items():
        for sk, st in (('globally', 'globally: '), ('after', 'after s: '), ('until', 'until u2: '), ('after-until', 'after s until u2: ')):
            own[f'{pk} in {sk}'] = (st + pt.replace('%s', ev), {'this': 't'})
    # the event as activator / terminator, under each pattern kind
    for pk, pt in (('absence', 'no u'), ('existence', 'some u'), ('response', 'u causes w'), ('requirement', 'u requires w'), ('prevention', 'u forbids w')):
        own[f'activator, {pk}'] = ('after ' + ev + ': ' + pt, {'this': 't'})
        own[f'activator of after-until, {pk}'] = ('after ' + ev + ' until u2: ' + pt, {'this': 't'})
        own[f'terminator, {pk}'] = ('until ' + ev + ': ' + pt, {'this': 't'})
        own[f'terminator of after-until, {pk}'] = ('after s until ' + ev + ': ' + pt, {'this': 't'})
    own['second-of-disjunction'] = ('globally: no (u or ' + ev + ')', {'this': 't'})
    own['first-of-disjunctive-terminator'] = ('until (' + ev + ' or u): w causes u2', {'this': 't'})
    # alias bound by s, used by t
    for pk, pt in (('absence', 'no ' + ev), ('existence', 'some ' + ev), ('response', ev + ' causes w'), ('response-behaviour', 'u causes ' + ev), ('requirement', ev + ' requires w'),
                   ('requirement-trigger', 'u requires ' + ev), ('prevention', ev + ' forbids w'), ('prevention-behaviour', 'u forbids ' + ev)):
        alias[f'alias-from-activator, {pk}'] = 'after s as A: ' + pt
        alias[f'alias-from-activator of after-until, {pk}'] = 'after s as A until u2: ' + pt
    for pk, pt in (('absence', 'no u'), ('existence', 'some u'), ('response', 'u causes w'), ('requirement', 'u requires w'), ('prevention', 'u forbids w')):
        alias[f'alias-in-terminator, {pk}'] = 'after s as A until ' + ev + ': ' + pt
    alias['alias-from-trigger'] = 'globally: s as A causes ' + ev
    alias['alias-from-trigger (prevention)'] = 'globally: s as A forbids ' + ev
    alias['alias-from-behaviour (requirement)'] = 'globally: s as A requires ' + ev
    alias['alias-from-disjunctive-trigger'] = 'globally: (s as A or u) causes ' + ev
    alias['alias-from-disjunctive-activator'] = 'after (u or s as A): no ' + ev
    alias['alias-used-inside-a-disjunction'] = 'after s as A: no (u or ' + ev + ')'
    alias['alias-used-inside-a-disjunctive-behaviour'] = 'globally: s as A causes (' + ev + ' or u or w)'
    alias['alias-used-inside-a-disjunctive-terminator'] = 'after s as A until (u or ' + ev + '): some w'
    return own, alias


POSITIONS, ALIAS_POSITIONS = _positions()
POSITIONS['behaviour'] = POSITIONS['absence in globally']
ALIAS_POSITIONS['alias-from-activator'] = ALIAS_POSITIONS['alias-from-activator, absence']


def expected(path, site_type, root_types, bound=frozenset()):
    """('ok',) or ('error', reason)"""
    try:
        d = schemas.resolve(path, root_types, bound)
    except schemas.Unresolved as e:
        return ('error', e.kind)
    if d is None:
        return ('ok',)
    if schemas.base_name(d) != site_type:
        return ('error', f'declared {schemas.base_name(d)} used as {site_type}')
    return ('ok',)


def mentions_offender(msg, path):
    """Does the error identify the offending reference (a field name, the index or the printed path)?"""
    names = []
    for u in absyn.subterms(path):
        if u[0] == 'field':
            names.append(u[2])
        elif u[0] == 'index' and u[2][0] == 'lit':
            names.append(str(u[2][1]))
    try:
        names.append(absyn.expr_text(path).replace(' ', ''))
    except Exception:  # noqa: BLE001
        pass
    return any(n and n in msg.replace(' ', '') for n in names)


def check_case(text, msg_types, exp, path, label, r, problems):
    r.count('evaluations')
    r.count('states')
    st, prop = impl.try_parse('prop', text)
    if st != 'ok':
        r.notes[f'not parseable ({st}): {label[0]}'] += 1
        return
    r.count('transitions')
    try:
        prop.type_check_references(msg_types)
        got = ('ok',)
    except Exception as e:  # noqa: BLE001
        got = ('error', type(e).__name__, str(e))
    r.outcomes[f'{exp[0]}->{got[0]}{":" + got[1] if got[0] == "error" else ""}'] += 1
    # E4, history of length 2-3 on ONE property object: a check against decoy schemas (same field tree, other leaf
    # types and array lengths; a schema without these fields) must leave nothing behind that changes a later check
    decoys = getattr(check_case, 'decoys', None)
    if decoys:
        st2, prop2 = impl.try_parse('prop', text)
        if st2 == 'ok':
            for d in decoys:
                r.count('transitions')
                try:
                    prop2.type_check_references(d)
                except Exception:  # noqa: BLE001
                    pass
            r.count('transitions')
            try:
                prop2.type_check_references(msg_types)
                again = ('ok',)
            except Exception as e:  # noqa: BLE001
                again = ('error', type(e).__name__, str(e))
            if again[:2] != got[:2]:
                problems.append(('schema check depends on earlier checks of the same property object against other schemas', f'{label}: «{text}»: fresh object: {got[:2]}, after checks against decoy schemas: {again[:2]}'))
    if exp[0] == 'ok' and got[0] != 'ok':
        problems.append((f'valid reference rejected by the schema check [{label[1]}]', f'{label}: «{text}»: {got[1]}: {got[2][:160]}'))
    elif exp[0] == 'error' and got[0] == 'ok':
        problems.append((f'invalid reference accepted by the schema check ({_class(exp[1])}) [{label[1]}]', f'{label}: «{text}»: {exp[1]}'))
    elif exp[0] == 'error' and not mentions_offender(got[2], path):
        problems.append((f'error does not identify the offending reference ({_class(exp[1])})', f'{label}: «{text}»: {got[1]}: {got[2][:160]}'))


def _class(reason):
    return 'type mismatch' if reason.startswith('declared') else reason


def schema_cases(sname, tier):
    sc = schemas.FAMILY[sname]
    asc = schemas.renamed(sc)
    depth = bounds(tier)['path_depth']
    for rootname, root, rsc in (('this', ('this',), sc), ('alias', ('var', 'A'), asc)):
        # the array that is indexed belongs to the *other* message where possible
        arrf = first_numeric_array(sc, ('this',))
        alias_arr = first_numeric_array(asc, ('var', 'A'))
        st = sites(arrf, alias_arr if rootname == 'this' else None, inner_index_builder(sc, ('this',)))
        valid = list(schemas.paths(rsc, root, depth))
        extra = []
        for node, t in valid:
            extra += valid_extra(node, t)
        for node, t in valid + extra:
            yield rootname, node, t, st, None
        for node, t in valid:
            for bad, why in invalid_variants(node, t):
                yield rootname, bad, None, st, why


def run_schema(sname, tier, r, shard=0, shards=1):
    problems = []
    sc = schemas.FAMILY[sname]
    tok = schemas.to_token(sc, 'M')
    atok = schemas.to_token(schemas.renamed(sc), 'MA')
    other = schemas.to_token(schemas.FAMILY['flat'], 'O')
    msg_types = {'t': tok, 's': atok, 'u': other, 'w': other, 'u2': other}
    dtok = schemas.to_token(schemas.retyped(sc), 'D')
    datok = schemas.to_token(schemas.renamed(schemas.retyped(sc)), 'DA')
    check_case.decoys = [{'t': dtok, 's': datok, 'u': other, 'w': other, 'u2': other}, {'t': other, 's': other, 'u': other, 'w': other, 'u2': other}]
    root_types = {'this': sc, 'A': schemas.renamed(sc)}
    for case_no, (rootname, path, t, st, why) in enumerate(schema_cases(sname, tier)):
        if case_no % shards != shard:
            continue
        for site_name, (site_type, build) in st.items():
            if t is not None:
                # valid path: every site; the expectation depends on the declared type
                pass
            else:
                # invalid path: sites of every required type
                pass
            term = build(path)
            exp = expected(path, site_type, root_types)
            try:
                ptext = absyn.expr_text(term)
            except ValueError:
                continue
            if rootname == 'this' and site_name == 'index-into-other-message':
                for pos, tmpl in ALIAS_POSITIONS.items():
                    check_case(tmpl % ptext, msg_types, exp, path, (sname, site_name, pos, why or 'valid'), r, problems)
            elif rootname == 'this':
                poss = POSITIONS if site_name in ('top', 'index-expression', 'bool-top', 'array-in') else {'behaviour': POSITIONS['behaviour']}
                for pos, (tmpl, _roots) in poss.items():
                    check_case(tmpl % ptext, msg_types, exp, path, (sname, site_name, pos, why or 'valid'), r, problems)
            else:
                poss = ALIAS_POSITIONS if site_name in ('top', 'index-expression', 'inner-index-expression') else {'alias-from-activator': ALIAS_POSITIONS['alias-from-activator']}
                for pos, tmpl in poss.items():
                    check_case(tmpl % ptext, msg_types, exp, path, (sname, site_name, pos, why or 'valid'), r, problems)
    return problems


def check_helpers(sname, r):
    problems = []
    sc = schemas.FAMILY[sname]
    tok = schemas.to_token(sc, 'M')

    def walk(desc, token, where):
        r.count('evaluations')
        r.count('transitions', 3)
        # leaf_fields
        try:
            got = token.leaf_fields()
            got_keys = {str(k): v for k, v in dict(got).items()}
            exp = schemas.leaf_fields(desc)
            if set(got_keys) != set(exp):
                problems.append(('leaf_fields disagrees with the declared field tree', f'{sname}{where}: {sorted(got_keys)} vs {sorted(exp)}'))
            else:
                for k, d in exp.items():
                    if schemas.base_name(d) not in _token_base(got_keys[k]):
                        problems.append(('leaf_fields maps a name to the wrong token', f'{sname}{where}: {k}'))
        except Exception as e:  # noqa: BLE001
            problems.append((f'leaf_fields raised {type(e).__name__}', f'{sname}{where}: {str(e)[:120]}'))
        for name, d in list(desc[1].items()) + [(k, c[0]) for k, c in desc[2].items()]:
            try:
                if not token.contains_name(name):
                    problems.append(('contains_name denies a declared name', f'{sname}{where}.{name}'))
                tt = token.get_type_of(name)
                if schemas.base_name(d) not in _token_base(tt):
                    problems.append(('get_type_of returns the wrong token', f'{sname}{where}.{name}'))
            except Exception as e:  # noqa: BLE001
                problems.append((f'field lookup raised {type(e).__name__}', f'{sname}{where}.{name}: {str(e)[:120]}'))
        for name in ('nope', '', 'X'):
            if name not in desc[1] and name not in desc[2]:
                try:
                    if token.contains_name(name):
                        problems.append(('contains_name accepts an undeclared name', f'{sname}{where}.{name}'))
                except Exception as e:  # noqa: BLE001
                    problems.append((f'contains_name raised {type(e).__name__}', f'{sname}{where}'))
        for name, d in desc[1].items():
            if not isinstance(d, str) and d[0] == 'msg':
                walk(d, token.fields[name], f'{where}.{name}')

    walk(sc, tok, '')
    # the same queries on message types whose equal sub-messages are ONE token object used by several fields, and on a
    # message built for the purpose: two fields of one vector type, twice, one level down (a Twist in a pair of Twists)
    walk(sc, schemas.to_token(sc, 'M', share={}), ' [shared tokens]')
    vec = schemas.msg({'x': 'N', 'y': 'N', 'z': 'N'})
    twist = schemas.msg({'linear': vec, 'angular': vec, 'ok': 'B'})
    pair = schemas.msg({'first': twist, 'second': twist, 'third': vec, 'all': schemas.arr(twist), 's': 'S'}, {'K': ('N', 1)})
    walk(pair, schemas.to_token(pair, 'P', share={}), ' [pair of twists, shared tokens]')
    walk(pair, schemas.to_token(pair, 'P'), ' [pair of twists]')
    return problems


def _token_base(tok):
    import hpl.types as HT

    return {n for n in ('BOOL', 'NUMBER', 'STRING', 'ARRAY', 'SET', 'MESSAGE', 'RANGE') if tok.type & getattr(HT.DataType, n)}


def check_tokens(r):
    """(d) predefined integer tokens; (e) constructor grids."""
    import hpl.types as HT

    problems = []
    for bits in (8, 16, 32, 64):
        for signed in (False, True):
            name = ('INT' if signed else 'UINT') + str(bits)
            r.count('evaluations')
            tok = getattr(HT, name)
            lo = -(2 ** (bits - 1)) if signed else 0
            hi = 2 ** (bits - 1) - 1 if signed else 2 ** bits - 1
            if (tok.min_value, tok.max_value) != (lo, hi):
                problems.append((f'predefined token {name} has the wrong bounds', f'{tok.min_value}..{tok.max_value} vs {lo}..{hi}'))
            fresh = getattr(HT.RangedType, name.lower())()
            if (fresh.min_value, fresh.max_value) != (lo, hi) or fresh.type != HT.DataType.NUMBER:
                problems.append((f'RangedType.{name.lower()}() has the wrong bounds or type', f'{fresh}'))
    inf = float('inf')
    grid = (-inf, -1, 0, 1, inf, 2 ** 63 - 1, 2 ** 63, 2 ** 64, 2 ** 64 + 1, -(2 ** 63), -(2 ** 63) - 1, 0.5, 1e308)
    for lo in grid:
        for hi in grid:
            r.count('evaluations')
            r.count('transitions')
            try:
                HT.RangedType('r', type=HT.DataType.NUMBER, min_value=lo, max_value=hi)
                ok = True
            except ValueError:
                ok = False
            except Exception as e:  # noqa: BLE001
                problems.append((f'RangedType constructor raised {type(e).__name__}', f'{lo}, {hi}'))
                continue
            if ok != (hi >= lo):
                problems.append(('RangedType accepts max < min or rejects a valid range', f'min={lo} max={hi}: accepted={ok}'))
    for n in (-3, -2, -1, 0, 1, 3):
        r.count('evaluations')
        r.count('transitions')
        try:
            a = HT.ArrayType('a', HT.UINT8, n)
            ok = True
        except ValueError:
            ok = False
        if ok != (n >= -1):
            problems.append(('ArrayType accepts a length below -1 or rejects a valid one', f'length={n}: accepted={ok}'))
        if ok:
            for idx in (0, 1, 2, 3, 10):
                exp = n < 0 or idx < n
                if a.contains_index(idx) != exp:
                    problems.append(('ArrayType.contains_index is wrong', f'length={n} index={idx}'))
            if a.is_fixed_length != (n >= 0):
                problems.append(('ArrayType.is_fixed_length is wrong', f'length={n}'))
    values = {'bool': (True, False), 'int': (0, 3), 'float': (2.5,), 'str': ('a',), 'none': (None,)}
    right = {'BOOL': ('bool',), 'NUMBER': ('int', 'float'), 'STRING': ('str',)}
    for base, oks in right.items():
        for kind, vals in values.items():
            r.count('evaluations')
            r.count('transitions')
            try:
                HT.EnumeratedType('e', type=getattr(HT.DataType, base), values=vals)
                ok = True
            except TypeError:
                ok = False
            exp = kind in oks or (base == 'NUMBER' and kind == 'bool')  # bool is an int in python: tolerated
            if base == 'NUMBER' and kind == 'bool':
                continue
            if ok != exp:
                problems.append(('EnumeratedType accepts values of the wrong kind or rejects right ones', f'{base} with {kind} values: accepted={ok}'))
    # TypeToken.type over all 128 type sets: exactly the single base types are tokens
    single = {'BOOL', 'NUMBER', 'STRING', 'ARRAY', 'SET', 'MESSAGE'}
    names = ('BOOL', 'NUMBER', 'STRING', 'ARRAY', 'RANGE', 'SET', 'MESSAGE')
    for bits in range(128):
        r.count('evaluations')
        r.count('transitions')
        sel = [n for i, n in enumerate(names) if bits >> i & 1]
        t = HT.DataType(0)
        for n in sel:
            t = t | getattr(HT.DataType, n)
        try:
            HT.TypeToken('t', type=t)
            ok = True
        except ValueError:
            ok = False
        exp = len(sel) == 1 and sel[0] in single
        if ok != exp:
            problems.append(('TypeToken accepts a type that is not one base type (or rejects one)', f'{sel}: accepted={ok}'))
    return problems


def plan(tier):
    units = [('schema', tier, s, k, 6) for s in bounds(tier)['schemas'] for k in range(6)]
    units += [('helpers', tier, s) for s in schemas.ALL_SCHEMAS]
    units.append(('tokens', tier))
    return units


def run(unit):
    r = Result()
    what, tier = unit[0], unit[1]
    if what == 'schema':
        probs = run_schema(unit[2], tier, r, unit[3] if len(unit) > 3 else 0, unit[4] if len(unit) > 4 else 1)
        r.sample({'schema': unit[2], 'case': 'globally: no t { xs [ nope ] > 0 }'})
    elif what == 'helpers':
        probs = check_helpers(unit[2], r)
    else:
        probs = check_tokens(r)
    seen = {}
    for kind, detail in probs:
        if kind in seen:
            continue
        seen[kind] = 1
        r.violation(kind, {'unit': list(unit), 'first': detail}, detail, size=len(detail))
    r.count('validated', r.counters['evaluations'])
    return r


def replay(w):
    u = tuple(w['unit'])
    return [{'sig': v['sig'], 'detail': v['detail']} for v in run(u).violations]


def describe(tier):
    b = bounds(tier)
    return {
        'rule': f"schemas {list(b['schemas'])}: every valid accessor chain (depth <= {b['path_depth']}, rooted at the current message and at an alias; plus in-range literal indices) and every chain invalid in exactly one way (unknown field, field access on a primitive / array, index on a primitive / message, literal index = length and length + 1) placed at each of up to 16 nesting sites (top level, under not/and, arithmetic, range bound, set element, function argument, quantifier body, quantifier range domain, boolean and string sites, array sites: in / len / quantifier domain, index expression, arithmetic inside an index, index on an inner accessor of a chain, an array of the other message indexed by this message's reference) - sites whose required type differs from the declared one give the type-mismatch cases - and at 5 property positions / 5 alias bindings (incl. aliases bound inside event disjunctions; the aliased message has a different message type); expectation from the independent resolver; the raised error must name the offending field, index or path. Plus leaf_fields / get_type_of / contains_name on every (nested) message of all 6 schemas, again with equal sub-messages being one token object shared by several fields, and on a pair of twists (two vector fields of one type, two levels), the 8 predefined integer tokens, and constructor grids (169 min/max pairs incl. integers beyond 2**53 that differ by one, 6 array lengths, 15 enumerated-value combinations, all 128 type sets for TypeToken). Every case is checked twice: on a fresh property object, and on a second object after it was checked against two decoy schemas (same field tree with every leaf type changed and arrays cut to length 1; a schema without these fields) - the verdicts must agree. Positions: the event that carries the path is placed in every scope position x scope kind x pattern kind (55 own-message positions: pattern events under 4 scope kinds x 8 pattern slots, activators and terminators under 5 pattern kinds, disjunction members) and alias-rooted paths in 30 positions (alias from the activator under every pattern slot, in the terminator under every pattern kind, from triggers / behaviours, from and inside disjunctions).",
        'bounds': {'path_depth': b['path_depth'], 'schemas': len(b['schemas'])},
        'exhaustive': True,
        'assumptions': ['resolver and field-tree walk in hplmc/schemas.py are the reference'],
    }
