"""C18 - a specification file is exactly its sequence of annotated properties.

Universe: all sequences of 1..L properties from a 14-text pool (every pattern
ending, every scope beginning, strings that contain '#' and property-like
text) x annotation arrangements (every subset and order of id/title/description,
on a bounded number of members) x separators; plus one-invalid-member variants
(duplicate key, unknown key, dangling annotation, syntax / sanity / type error
member at each index), the empty and the whitespace-only file.
Oracle: per-part parse with the property parser (differential).
"""

from __future__ import annotations

from itertools import permutations, product

from hplmc import absyn, impl
from hplmc.core import Result

ID = 'C18'

POOL = [
    'globally: no a',
    'globally: some b within 100 ms',
    'after s: a causes b',
    'after s as S until e: a {x = @S.x} requires (c or d)',
    'until e {p}: a forbids b within 2 s',
    'globally: no (a or b as B {x > 1})',
    'after (s or s2): some a {forall i in xs: @i > 0}',
    'globally: a as A causes b {y = @A.y} within 1e3 ms',
    'until e: some a as A',
    'globally: no a {x in [0 to 1]!}',
    'globally: b requires a {s = "globally: no z"}',
    'globally: no a {s = "# id: fake"}',
    'after a: no b within 0.5 s',
    'globally: some /ns/topic',
]
SMALL_POOL = [POOL[0], POOL[2], POOL[4], POOL[8]]

INVALID = [
    ('syntax', 'globally: no'),
    ('syntax', 'globally no a'),
    ('sanity', 'globally: no a {@Z.x > 1}'),
    ('sanity', 'globally: no (a or a)'),
    ('type', 'globally: no a {x and 1}'),
    ('syntax', '# id: k # id: k globally: no a'),
    ('syntax', '# colour: red globally: no a'),
    ('syntax', '# title: notastring globally: no a'),
    ('syntax', '# title: "a" # title: "b" globally: no a'),
    ('syntax', '# description: "a" # id: k # description: "a" globally: no a'),
    ('syntax', '# id: k # title: "t" # id: k2 globally: no a'),
    ('syntax', '# id: k # colour: red globally: no a'),
    ('syntax', '# title: "t" # description: "d" # size: 3 globally: no a'),
    ('syntax', '# id: k # title: globally: no a'),
    ('syntax', '# title: "a\nb" globally: no a'),
    ('syntax', 'globally: no a {s = "a\nb"}'),
]

SEPS = (' ', '\n', '\n\n\t')
KEYS = ('id', 'title', 'description')


def arrangements():
    out = [()]
    for n in (1, 2, 3):
        out += list(permutations(KEYS, n))
    return out  # 16


def annotate(text, arr, k):
    parts = []
    for key in arr:
        if key == 'id':
            parts.append(f'# id: p{k}')
        elif key == 'title':
            parts.append(f'# title: "T {k}"')
        else:
            parts.append(f'# description: "D # {k}: globally"')
    return ' '.join(parts + [text]), {key: (f'p{k}' if key == 'id' else f'"T {k}"' if key == 'title' else f'"D # {k}: globally"') for key in arr}


def bounds(tier):
    if tier == 'quick':
        return {'seq_len': 3, 'seq_len_small_pool': 4, 'annotated_members': 1}
    return {'seq_len': 3, 'seq_len_small_pool': 6, 'annotated_members': 2}


def plan(tier):
    b = bounds(tier)
    units = []
    for first in range(len(POOL)):
        for second in range(-1, len(POOL)):
            units.append(('seq', tier, first, second))
    for first in range(len(SMALL_POOL)):
        for second in range(len(SMALL_POOL)):
            units.append(('small', tier, first, second))
    for i in range(len(INVALID)):
        units.append(('invalid', tier, i))
    units.append(('empty', tier))
    units.append(('pairs', tier))
    units.append(('module', tier))
    units += [('linebreaks', tier, k) for k in range(16)]
    return units


def observe_prop(obj):
    return (absyn.canon(absyn.lift(obj, typed=True)), tuple(sorted((str(k), str(v)) for k, v in obj.metadata.items())))


_single = {}


def single(text):
    v = _single.get(text)
    if v is None:
        st, res = impl.try_parse('prop', text)
        v = (st, observe_prop(res) if st == 'ok' else None)
        _single[text] = v
    return v


def check_file(parts, metas, sep, r):
    """parts: property texts (already annotated); metas: expected metadata dicts."""
    problems = []
    text = sep.join(parts)
    r.count('evaluations')
    r.count('transitions')
    st, spec = impl.try_parse('spec', text)
    singles = [single(p) for p in parts]
    bad = [s for s in singles if s[0] != 'ok']
    if bad:
        exp = bad[0][0]
        r.outcomes['invalid:' + exp] += 1
        if st == 'ok':
            problems.append(('file with an invalid member is accepted', f'«{text}»: member alone raises {exp}'))
        elif st != exp and not (len(bad) > 1 and st in [s[0] for s in bad]):
            problems.append(('file raises a different error class than the offending member', f'«{text}»: member alone raises {exp}, file raises {st}'))
        return problems
    r.outcomes[f'valid:{len(parts)}'] += 1
    if st != 'ok':
        problems.append((f'file of valid properties rejected ({st})', f'«{text}»: {str(spec)[:200]}'))
        return problems
    props_ = list(spec.properties)
    if len(props_) != len(parts):
        problems.append(('wrong number of properties', f'«{text}»: {len(props_)} instead of {len(parts)}'))
        return problems
    for i, (p, s, m) in enumerate(zip(props_, singles, metas)):
        got = observe_prop(p)
        if got[0] != s[1][0]:
            problems.append(('a property of the file differs from the property parsed on its own', f'«{text}» index {i}'))
        if got[1] != s[1][1]:
            problems.append(('metadata differs from the property parsed on its own', f'«{text}» index {i}: {got[1]} vs {s[1][1]}'))
        if dict(got[1]) != {k: v for k, v in m.items()}:
            problems.append(('metadata is not what was annotated', f'«{text}» index {i}: {got[1]} vs {m}'))
        for j, q in enumerate(props_):
            if j != i and q.metadata is p.metadata:
                problems.append(('metadata dictionary shared between properties', f'«{text}» {i},{j}'))
    return problems


REPRESENTATIVE = (('id',), ('title',), ('description', 'id'), ('id', 'title', 'description'))


def arrangements_for(n, max_annotated, arrs):
    """Assignments of an arrangement to each of n members with <= max_annotated
    non-empty: the first annotated member takes every arrangement, further ones a
    representative subset (4 of the 15)."""
    base = [()] * n
    yield tuple(base)
    idxs = range(n)
    from itertools import combinations

    for d in range(1, max_annotated + 1):
        for where in combinations(idxs, d):
            menus = [arrs[1:]] + [REPRESENTATIVE] * (d - 1)
            for choice in product(*menus):
                a = list(base)
                for w, c in zip(where, choice):
                    a[w] = c
                yield tuple(a)


def run_sequences(pool, seqs, b, r):
    arrs = arrangements()
    for seq in seqs:
        n = len(seq)
        for assign in arrangements_for(n, b['annotated_members'], arrs):
            parts, metas = [], []
            for k, (idx, arr) in enumerate(zip(seq, assign)):
                t, m = annotate(pool[idx], arr, k)
                parts.append(t)
                metas.append(m)
            for sep in SEPS:
                r.count('states')
                for kind, detail in check_file(parts, metas, sep, r):
                    r.violation(kind, {'parts': parts, 'sep': sep}, detail, size=sum(len(p) for p in parts))
        # every member fully annotated (all three keys), all separators mixed per gap (E5 on separators)
        full = KEYS
        parts, metas = [], []
        for k, idx in enumerate(seq):
            t, m = annotate(pool[idx], full, k)
            parts.append(t)
            metas.append(m)
        for sep in SEPS:
            r.count('states')
            for kind, detail in check_file(parts, metas, sep, r):
                r.violation(kind, {'parts': parts, 'sep': sep}, detail, size=sum(len(p) for p in parts))


def run(unit):
    r = Result()
    what, tier = unit[0], unit[1]
    b = bounds(tier)
    if what == 'seq':
        first, second = unit[2], unit[3]
        seqs = []
        if second < 0:
            seqs.append((first,))
        else:
            for n in range(2, b['seq_len'] + 1):
                for rest in product(range(len(POOL)), repeat=n - 2):
                    seqs.append((first, second) + rest)
        run_sequences(POOL, seqs, b, r)
        r.sample({'file': POOL[first] + '\n# id: p1 ' + POOL[(first + 3) % len(POOL)]})
    elif what == 'small':
        _, _, f1, f2 = unit
        seqs = []
        for n in range(b['seq_len'] + 1, b['seq_len_small_pool'] + 1):
            for rest in product(range(len(SMALL_POOL)), repeat=n - 2):
                seqs.append((f1, f2) + rest)
        run_sequences(SMALL_POOL, seqs, dict(b, annotated_members=1), r)
    elif what == 'invalid':
        cls, bad = INVALID[unit[2]]
        for n in (1, 2, 3):
            for pos in range(n):
                for others in product((0, 3, 7), repeat=n - 1):
                    parts = [annotate(POOL[o], ('id',), k)[0] for k, o in enumerate(others)]
                    parts.insert(pos, bad)
                    for sep in SEPS:
                        r.count('states')
                        for kind, detail in check_file(parts, [{}] * n, sep, r):
                            r.violation(kind, {'parts': parts, 'sep': sep}, detail, size=sum(len(p) for p in parts))
                        # history of length 2 on the same parser object: a rejected file must leave nothing behind
                        vparts, vmetas = [], []
                        for k, idx in enumerate((2, 5)):
                            t_, m_ = annotate(POOL[idx], ('title', 'id') if k == 0 else ('description',), k)
                            vparts.append(t_)
                            vmetas.append(m_)
                        for kind, detail in check_file(vparts, vmetas, '\n', r):
                            r.violation(kind + ' (after a rejected file, same parser object)', {'parts': parts, 'sep': sep, 'then': vparts}, detail, size=sum(len(p) for p in parts))
        # the module-level helpers must raise what the parser objects raise (class of the offending member)
        import hpl.parser as HP

        for parts in ([bad], [POOL[0], bad], [bad, POOL[3]]):
            text = '\n'.join(parts)
            r.count('transitions', 2)
            st, _ = impl.try_parse('spec', text)
            try:
                HP.parse_specification(text)
                got = 'ok'
            except Exception as e:  # noqa: BLE001
                got = impl.outcome_class(e)
            if got != st:
                r.violation('parse_specification (module level) disagrees with the specification parser object', {'parts': parts, 'sep': '\n', 'module_level': True}, f'{text!r}: {got} vs {st} (member alone: {cls})', size=len(text))
        if unit[2] < 6:
            try:
                HP.parse_property(bad)
                got = 'ok'
            except Exception as e:  # noqa: BLE001
                got = impl.outcome_class(e)
            if got != single(bad)[0]:
                r.violation('parse_property (module level) disagrees with the property parser object', {'parts': [bad], 'sep': '\n', 'module_level': True}, f'{bad!r}: {got} vs {single(bad)[0]}', size=len(bad))
        # dangling annotation after the last property
        for sep in SEPS:
            parts = [POOL[0], POOL[2]]
            text = sep.join(parts) + sep + '# id: dangling'
            r.count('evaluations')
            st, _ = impl.try_parse('spec', text)
            if st != 'syntax':
                r.violation('dangling annotation accepted', {'text': text}, f'«{text}» -> {st}', size=len(text))
        r.sample({'invalid_member': bad, 'class': cls})
    elif what == 'pairs':
        # two malformed members that could "repair" each other (an unterminated string in an earlier
        # property, a stray quote in a later one): the file must still be rejected
        openers = ['# title: "abc globally: no a', 'globally: no a {s = "abc}', '# description: "d globally: some b', '# id: k # title: "t globally: no a {x > 1}']
        closers = ['" globally: no b', 'globally: no b {s = abc"}', '# title: x" globally: no c', 'until e: b requires c {s = "}']
        for o in openers:
            for c in closers:
                for mid in ([], [POOL[0]], [annotate(POOL[2], ('id',), 7)[0]]):
                    parts = [o] + mid + [c]
                    for sep in ('\n', '\n\n', ' \n\t'):  # a string cannot span lines, so the members stay malformed
                        text = sep.join(parts)
                        r.count('evaluations')
                        r.count('states')
                        r.count('transitions')
                        st, spec = impl.try_parse('spec', text)
                        r.outcomes['pair:' + st] += 1
                        if st == 'ok':
                            r.violation('file with two malformed members is accepted', {'text': text, 'pair': True}, f'«{text}» parsed into {len(spec.properties)} properties', size=len(text))
        r.sample({'malformed_pair': openers[0] + ' / ' + closers[0]})
    elif what == 'linebreaks':
        # characters that some line-splitting routines treat as line breaks (str.splitlines does), white space
        # look-alikes and a byte-order mark: inside string literals / annotations and stray between tokens; each
        # member's own parse decides what the file must do.  A thin slice also goes through the module-level
        # helpers parse_specification / parse_property (a new parser per call), which must agree with the parser objects.
        import hpl.parser as HP

        chars = ['\r', '\x0b', '\x0c', '\x1c', '\x1d', '\x1e', '\x85', '\u2028', '\u2029', '\t', '\xa0', '\ufeff', '\x00', '\x1f', '\u200b', '\r\n']
        c = chars[unit[2]]
        members = [
            f'# title: "a{c}b" globally: no a', f'globally: no b {{s = "x{c}y"}}', f'# description: "{c}" until e: b requires c', f'# id: k{c}\nglobally: no a',
            f'globally:{c}no a', f'globally: no a{c}', f'{c}globally: no a', f'globally: no a {{x >{c}1}}', f'# id: p{c}# title: "t" globally: some b',
        ]

        def module_outcome(fn, text):
            try:
                res = fn(text)
            except Exception as e:  # noqa: BLE001
                return (impl.outcome_class(e), None)
            return ('ok', [observe_prop(q) for q in res.properties] if hasattr(res, 'properties') else observe_prop(res))

        for m in members:
            for others in ([], [POOL[0]], [POOL[0], annotate(POOL[2], ('id',), 7)[0]]):
                for pos in range(len(others) + 1):
                    parts = others[:pos] + [m] + others[pos:]
                    for sep in ('\n', ' ', '\n\n'):
                        r.count('states')
                        metas = [dict(single(p)[1][1]) if single(p)[0] == 'ok' else {} for p in parts]
                        for kind, detail in check_file(parts, metas, sep, r):
                            r.violation(kind + ' [unusual white space or line-break character]', {'parts': parts, 'sep': sep, 'linebreaks': True}, detail.replace(c, repr(c)), size=len(parts) * 100 + len(m))
            # module-level helpers on the member alone and on a two-member file
            r.count('transitions', 3)
            st_obj = single(m)
            got = module_outcome(HP.parse_property, m)
            if got[0] != st_obj[0] or (got[0] == 'ok' and got[1] != st_obj[1]):
                r.violation('parse_property (module level) disagrees with the property parser object [unusual white space or line-break character]', {'parts': [m], 'sep': '\n', 'module_level': True}, f'{m!r}: {got[0]} vs {st_obj[0]}', size=len(m))
            for parts in ([m], [POOL[0], m]):
                text = '\n'.join(parts)
                st, spec = impl.try_parse('spec', text)
                exp = (st, [observe_prop(q) for q in spec.properties] if st == 'ok' else None)
                got = module_outcome(HP.parse_specification, text)
                if got[0] != exp[0] or (got[0] == 'ok' and got[1] != exp[1]):
                    r.violation('parse_specification (module level) disagrees with the specification parser object [unusual white space or line-break character]', {'parts': parts, 'sep': '\n', 'module_level': True}, f'{text!r}: {got[0]} vs {exp[0]}', size=len(text))
        r.sample({'linebreak_member': repr(members[0])})
    elif what == 'module':
        # the module-level helpers: a result (and its metadata) belongs to the caller; parsing the same text
        # again must give what the text says
        import hpl.parser as HP

        texts = ['# id: p1\nglobally: no a\n# title: "t"\nafter b: some c', 'globally: no a', '# id: only\nuntil e: a requires b within 1 s']
        for text in texts:
            for fname, kind in (('parse_specification', 'spec'), ('parse_property', 'prop')):
                if kind == 'prop' and text.count(':') > 3 and 'after b' in text:
                    continue
                r.count('evaluations')
                r.count('states')
                r.count('transitions', 3)
                fn = getattr(HP, fname)
                try:
                    first = fn(text)
                except Exception:  # noqa: BLE001
                    continue
                props_ = list(first.properties) if kind == 'spec' else [first]
                before = [observe_prop(p_) for p_ in props_]
                for p_ in props_:
                    p_.metadata['id'] = 'edited'
                    p_.metadata.pop('title', None)
                    p_.metadata['extra'] = 1
                second = fn(text)
                props2 = list(second.properties) if kind == 'spec' else [second]
                after = [observe_prop(p_) for p_ in props2]
                if after != before:
                    r.violation(f'{fname}: a second parse of the same text reflects edits made to the first result', {'text': text, 'module': fname}, f'{fname}({text!r}) twice: {after} vs {before}', size=len(text))
                if any(a is b_ for a in props_ for b_ in props2):
                    r.violation(f'{fname}: two parses of the same text return the same objects', {'text': text, 'module': fname}, f'{fname}({text!r})', size=len(text))
    else:
        for text in ('', ' ', '\n', '\t\n  \n'):
            r.count('evaluations')
            r.count('states')
            st, res = impl.try_parse('spec', text)
            r.outcomes['empty:' + st] += 1
            if st != 'syntax':
                r.violation('empty file not rejected with a syntax error', {'text': text}, f'{text!r} -> {st}', size=len(text))
    r.count('validated', r.counters['evaluations'])
    return r


def replay(w):
    r = Result()
    if w.get('pair'):
        st, _ = impl.try_parse('spec', w['text'])
        return [{'sig': 'file with two malformed members is accepted', 'detail': w['text']}] if st == 'ok' else []
    if w.get('module'):
        return [{'sig': v['sig'], 'detail': v['detail']} for v in run(('module', 'quick')).violations]
    if w.get('module_level'):
        import hpl.parser as HP

        text = w['sep'].join(w['parts'])
        out = []
        for fn, kind in ((HP.parse_specification, 'spec'),) + (((HP.parse_property, 'prop'),) if len(w['parts']) == 1 else ()):
            st, obj = impl.try_parse(kind, text)
            try:
                res = fn(text)
                got = 'ok'
            except Exception as e:  # noqa: BLE001
                got = impl.outcome_class(e)
            if got != st:
                out.append({'sig': f'{fn.__name__} (module level) disagrees with the parser object', 'detail': f'{text!r}: {got} vs {st}'})
        return out
    if 'parts' in w:
        metas = []
        return [{'sig': k, 'detail': d} for k, d in check_file(w['parts'], [dict(single(p)[1][1]) if single(p)[0] == 'ok' else {} for p in w['parts']], w['sep'], r)]
    st, _ = impl.try_parse('spec', w['text'])
    return [] if st == 'syntax' else [{'sig': 'not rejected', 'detail': st}]


def describe(tier):
    b = bounds(tier)
    return {
        'rule': f"all sequences of 1..{b['seq_len']} properties from a 14-text pool (and {b['seq_len'] + 1}..{b['seq_len_small_pool']} from a 4-text sub-pool) x every assignment of one of the 16 annotation arrangements (subsets and orders of id/title/description) to <= {b['annotated_members']} members, plus all members fully annotated, x 3 separators; one-invalid-member variants (16 kinds x every index in files of 1..3) and dangling/empty/whitespace files; after every rejected file a valid annotated file is parsed with the same parser object (history of length 2); 4 x 4 pairs of malformed members that could repair each other (unterminated string / stray quote) x 3 fillers x 3 separators; the module-level parse_specification / parse_property called twice on the same text with the first result's metadata edited in between. Each file is compared index by index (typed lift and metadata) with the property parser on the parts. Plus 16 unusual white-space / line-break characters (CR, VT, FF, FS, GS, RS, NEL, U+2028, U+2029, TAB, NBSP, BOM, NUL, US, ZWSP, CRLF) x 9 member shapes (inside titles, descriptions, string literals, after an annotation, between tokens, leading, trailing) x 0-2 companions x every position x 3 separators. A slice of the line-break cases and every invalid member (alone and with a valid neighbour) also go through the module-level helpers parse_specification / parse_property, which must give (or raise) what the parser objects give. A state = one file text; a transition = one specification parse.",
        'bounds': b,
        'exhaustive': True,
        'assumptions': ['the property parser on each part alone is the reference (differential oracle); its own correctness is C01'],
    }
