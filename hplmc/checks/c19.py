"""C19 - the command-line tool's exit status and JSON output are faithful.

Universe: property texts (every scope / pattern / node kind, INF / NAN / PI,
unbounded and bounded patterns, metadata; syntax / sanity / type / unknown-
function errors) and specification files (valid, one invalid member, empty,
missing, a directory) x the four configurations {-p, file} x {-o json, none}.
hpl.cli.main is called in-process with captured streams; one text per outcome
class and configuration is also run as a real `python -m hpl` subprocess.
Oracle: the library parser called directly (exit status), a strict JSON parser,
and an independent mirror serialisation of the AST.
"""

from __future__ import annotations

import contextlib
import enum
import io
import json
import math
import os
import shutil
import subprocess
import sys
import tempfile

import attrs

from hplmc import absyn, impl, props
from hplmc.core import REPO, Result, chunks

ID = 'C19'

VALID_PROPS = [
    'globally: no a',
    'globally: some b within 100 ms',
    '# id: p1 # title: "a title" # description: "d" after s as S until e: a {x = @S.x} requires (c or d) within 2 s',
    'until e {p}: a forbids b',
    'globally: no a {x < INF and y > -INF}',
    'globally: no a {x = NAN or x != PI * E}',
    'globally: some a {forall i in xs: @i in ![0 to len(xs)] and exists j in {1, 2.5, 1e3}: @j > m.f[0].g}',
    'globally: no a {not s = "str \\" # ing" implies abs(x) ** 2 >= max({x, 1})}',
    'after (s or s2 as T {z iff w}): (a or b) causes (c as C or d) within 0.5 s',
    'globally: no a {x in [NAN to INF]}',
    'globally: no /ns/t {roll(m) < 1}',
    'globally: no a {x < 9999999999999999999999999999999999999999999999999999999999999999999999999999999999999999999999999999999999999999999999999999999999999999999999999999999999999999999999999999999999999999999999999999999999999999999999999999999999999999999999999999999999999999999999999999999999999999999999999999999999999999999999 and y > -1000000000000000000000000000000000000000000000000000000000000000000000000000000000000000000000000000000000000000000000000000000000000000000000000000000000000000000000000000000000000000000000000000000000000000000000000000000000000000000000000000000000000000000000000000000000000000000000000000000000000000000000000000000000000000000}',
    '# title: "To Infinity and NaN" # description: "-Infinity" globally: no /sensor/Infinity as NaN {s = "NaN" or Infinity > 0 or @NaN.NaN = "-Infinity"}',
    'after a as M: no b {roll(@M) > 0} within 1e400 s',
]
INVALID_PROPS = [
    ('syntax', 'globally: no'),
    ('syntax', ''),
    ('syntax', '# id: k # id: k globally: no a'),
    ('sanity', 'globally: no a {@Z.x > 1}'),
    ('sanity', 'globally: no (a or a)'),
    ('type', 'globally: no a {x and 1}'),
    ('value', 'globally: no a {foo(x) > 1}'),
    ('syntax', 'globally: no a } {'),
]


def bounds(tier):
    return {'max_width': 2 if tier == 'quick' else 3}


def mirror(obj):
    """Independent field-for-field serialisation of an AST (attrs fields
    recursively; enums by value; non-finite floats null; tuples as lists)."""
    if attrs.has(type(obj)):
        return {f.name: mirror(object.__getattribute__(obj, f.name)) for f in attrs.fields(type(obj))}
    if isinstance(obj, enum.Enum):
        return mirror(obj._value_)
    if isinstance(obj, float) and (math.isnan(obj) or math.isinf(obj)):
        return None
    if isinstance(obj, (tuple, list, set, frozenset)):
        return [mirror(x) for x in obj]
    if isinstance(obj, dict):
        return {str(k): mirror(v) for k, v in obj.items()}
    if isinstance(obj, str):
        return str(obj)
    return obj


def strict_loads(text):
    def reject(c):
        raise ValueError(f'non-standard JSON constant {c}')

    return json.loads(text, parse_constant=reject)


def run_cli(argv):
    from hpl.cli import main

    out, err = io.StringIO(), io.StringIO()
    with contextlib.redirect_stdout(out), contextlib.redirect_stderr(err):
        try:
            rv = main(argv)
        except SystemExit as e:
            rv = ('SystemExit', e.code)
        except BaseException as e:  # noqa: BLE001
            rv = ('raised', type(e).__name__)
    return rv, out.getvalue(), err.getvalue()


def expected_outcome(kind, text):
    st, res = impl.try_parse(kind, text)
    return st, (res if st == 'ok' else None)


def check_case(argv, kind, text, want_json, r, label):
    """One CLI invocation against the oracle."""
    problems = []
    r.count('evaluations')
    r.count('states')
    r.count('transitions')
    st, ast = expected_outcome(kind, text) if text is not None else ('nofile', None)
    rv, out, err = run_cli(argv)
    r.outcomes[f'{label}:{"json" if want_json else "plain"}:{st}:rv={rv}'] += 1
    if st == 'ok':
        if rv != 0:
            problems.append(('valid input but exit status is not 0', f'{argv[-1][:80]!r}: returned {rv}; stderr {err[:200]!r}'))
            return problems
        if want_json:
            try:
                doc = strict_loads(out)
            except ValueError as e:
                problems.append(('stdout is not one strictly valid JSON document', f'{argv[-1][:80]!r}: {e}; stdout starts {out[:120]!r}'))
                return problems
            exp = mirror(ast)
            if doc != exp:
                problems.append(('JSON does not mirror the AST', f'{argv[-1][:80]!r}: {_first_diff(doc, exp)}'))
        elif out.strip():
            problems.append(('unexpected output without -o json', f'{argv[-1][:80]!r}: {out[:120]!r}'))
    else:
        if rv != 1:
            problems.append(('invalid input but exit status is not 1', f'{argv[-1][:80]!r} ({st}): returned {rv}'))
        if not (out.strip() or err.strip()):
            problems.append(('invalid input but no diagnostic', f'{argv[-1][:80]!r} ({st})'))
        try:
            strict_loads(out)
            is_json = bool(out.strip())
        except ValueError:
            is_json = False
        if is_json:
            problems.append(('a JSON document is printed for invalid input', f'{argv[-1][:80]!r} ({st}): {out[:120]!r}'))
    return problems


def _first_diff(a, b, path='$'):
    if type(a) is not type(b):
        return f'{path}: {a!r} vs {b!r}'
    if isinstance(a, dict):
        for k in sorted(set(a) | set(b)):
            if k not in a or k not in b:
                return f'{path}.{k}: missing on one side'
            d = _first_diff(a[k], b[k], f'{path}.{k}')
            if d:
                return d
        return None
    if isinstance(a, list):
        if len(a) != len(b):
            return f'{path}: lengths {len(a)} vs {len(b)}'
        for i, (x, y) in enumerate(zip(a, b)):
            d = _first_diff(x, y, f'{path}[{i}]')
            if d:
                return d
        return None
    return None if a == b else f'{path}: {a!r} vs {b!r}'


def skeleton_texts(tier):
    from hplmc.checks import c11

    out = []
    for sk, pk, widths in props.width_skeletons(bounds(tier)['max_width']):
        for deco in ('plain', 'alias_act', 'alias_first'):
            evs = c11.decorate(sk, pk, widths, deco)
            if evs is None:
                continue
            p = props.make_property(
                sk, pk, act=props.disj(evs['act']) if 'act' in evs else None, term=props.disj(evs['term']) if 'term' in evs else None,
                trig=props.disj(evs['trig']) if 'trig' in evs else None, beh=props.disj(evs['beh']),
            )
            out.append(absyn.property_text(p, time=None if len(out) % 2 else ('100', 'ms')))
    return out


def plan(tier):
    texts = skeleton_texts(tier)
    units = [('props', tier, c) for c in chunks(texts, 24)]
    units.append(('fixed', tier))
    units += [('files', tier, k, 24) for k in range(24)]
    units += [('subprocess', tier, part) for part in ('classes', 'unicode', 'multi')]
    return units


def run(unit):
    r = Result()
    what, tier = unit[0], unit[1]
    if what == 'props':
        for text in unit[2]:
            for want_json in (True, False):
                argv = ['-p'] + (['-o', 'json'] if want_json else []) + [text]
                for kind, detail in check_case(argv, 'prop', text, want_json, r, '-p'):
                    r.violation(kind, {'argv': argv}, detail, size=len(text))
        r.sample({'argv': ['-p', '-o', 'json', unit[2][0]]})
    elif what == 'fixed':
        for text in VALID_PROPS:
            if impl.try_parse('prop', text)[0] != 'ok':
                # vacuity guard (read in the evidence): a corpus text meant to be valid that the library rejects
                r.notes['corpus text meant to be valid is rejected by the library parser: ' + text[:50]] += 1
        for text in VALID_PROPS + [t for _c, t in INVALID_PROPS]:
            for want_json in (True, False):
                for order in (0, 1):
                    argv = (['-p'] + (['-o', 'json'] if want_json else []) + [text]) if order == 0 else ((['--output', 'json'] if want_json else []) + ['--property', text])
                    for kind, detail in check_case(argv, 'prop', text, want_json, r, '-p'):
                        r.violation(kind, {'argv': argv}, detail, size=len(text))
        # without -p the argument names a file: a text that would be a valid property is a file that does not exist
        for text in VALID_PROPS[:4] + ['globally: no /a', 'a', 'p.hpl']:
            for want_json in (True, False):
                for argv in ((['-o', 'json'] if want_json else []) + [text], [text] + (['--output', 'json'] if want_json else [])):
                    for kind, detail in check_case(argv, 'spec', None, want_json, r, 'missing-file-named-like-a-property'):
                        r.violation(kind + ' [argument without -p that is not a file]', {'argv': argv}, detail, size=len(text))
        r.sample({'argv': ['-p', '-o', 'json', VALID_PROPS[5]]})
    elif what == 'files':
        d = tempfile.mkdtemp(prefix='hplmc_c19_')
        try:
            files = []
            from itertools import product

            for n in (1, 2, 3):
                for combo in product(range(len(VALID_PROPS)), repeat=n):
                    if n == 3 and (combo[0] + combo[1] + combo[2]) % 5:
                        continue
                    files.append('\n'.join(VALID_PROPS[i] for i in combo))
            for _c, bad in INVALID_PROPS:
                for pos in (0, 1, 2):
                    parts = [VALID_PROPS[0], VALID_PROPS[2]]
                    parts.insert(pos, bad)
                    files.append('\n'.join(parts))
            files += ['', '  \n', 'globally: no a\n# id: dangling']
            for k, content in enumerate(files):
                if k % unit[3] != unit[2]:
                    continue
                path = os.path.join(d, f'f{k}.hpl')
                with open(path, 'w', encoding='utf-8') as fh:
                    fh.write(content)
                for want_json in (True, False):
                    argv = (['-o', 'json'] if want_json else []) + [path]
                    for kind, detail in check_case(argv, 'spec', content, want_json, r, 'file'):
                        r.violation(kind, {'argv': argv[:-1] + ['<file>'], 'content': content}, detail, size=len(content))
            # long files: the whole file is read, whatever its length - sizes just beyond 4 KiB, 8 KiB, 64 KiB, 128 KiB
            # and 1 MiB (buffer and chunk sizes of readers), valid throughout and with the only error in the last property
            sizes = {2: 4096, 3: 8192, 4: 65536, 5: 131072, 6: 1 << 20}
            if unit[2] in sizes and (tier != 'quick' or unit[2] != 6):
                parts, total, i = [], 0, 0
                while total <= sizes[unit[2]] + 200:
                    parts.append(f'# id: p{i}\nglobally: no /t{i % 7} {{ x > {i} }}' if i % 2 else f'# id: p{i}\n# title: "property {i}"\nafter s as S until e: (a or b {{ x = @S.x }}) causes c within {i % 9 + 1} s')
                    total += len(parts[-1]) + 1
                    i += 1
                for content in ('\n'.join(parts), '\n'.join(parts + ['globally: no']), '\n'.join(parts + ['# id: p0\nglobally: some z'])):
                    path = os.path.join(d, f'long{unit[2]}.hpl')
                    with open(path, 'w', encoding='utf-8') as fh:
                        fh.write(content)
                    for want_json in (True, False):
                        argv = (['-o', 'json'] if want_json else []) + [path]
                        for kind, detail in check_case(argv, 'spec', content, want_json, r, 'long-file'):
                            r.violation(kind + ' [long file]', {'argv': argv[:-1] + ['<file>'], 'long_file_shard': unit[2]}, detail[:600], size=len(content))
            # missing file, directory
            for bogus in () if unit[2] else (os.path.join(d, 'missing.hpl'), d):
                for want_json in (True, False):
                    argv = (['-o', 'json'] if want_json else []) + [bogus]
                    for kind, detail in check_case(argv, 'spec', None, want_json, r, 'nofile'):
                        r.violation(kind, {'argv': argv[:-1] + ['<missing>']}, detail, size=1)
        finally:
            shutil.rmtree(d, ignore_errors=True)
        r.sample({'file': VALID_PROPS[2] + '\\n' + VALID_PROPS[5]})
    else:
        # real processes: exit status = return value, one text per outcome class x configuration
        d = tempfile.mkdtemp(prefix='hplmc_c19_')
        try:
            env = dict(os.environ)
            env['PYTHONPATH'] = str(REPO / 'src')
            part = unit[2] if len(unit) > 2 else 'classes'
            cases = [('ok', VALID_PROPS[5])] + [(c, t) for c, t in INVALID_PROPS if t]
            seen = set()
            for cls, text in cases if part == 'classes' else []:
                if cls in seen:
                    continue
                seen.add(cls)
                path = os.path.join(d, f'{cls}.hpl')
                with open(path, 'w', encoding='utf-8') as fh:
                    fh.write(text)
                for want_json in (True, False):
                    for argv, kind in ((['-p'] + (['-o', 'json'] if want_json else []) + [text], 'prop'), ((['-o', 'json'] if want_json else []) + [path], 'spec')):
                        r.count('evaluations')
                        r.count('states')
                        r.count('transitions')
                        p = subprocess.run([sys.executable, '-m', 'hpl'] + argv, capture_output=True, text=True, env=env, timeout=120)
                        st, ast = expected_outcome(kind, text)
                        want = 0 if st == 'ok' else 1
                        r.outcomes[f'process:{st}:exit={p.returncode}'] += 1
                        if p.returncode != want:
                            r.violation('process exit status wrong', {'argv': argv[:-1] + ['...'], 'text': text}, f'exit {p.returncode}, expected {want}; stderr {p.stderr[-200:]!r}', size=len(text))
                        if st == 'ok' and want_json:
                            try:
                                if strict_loads(p.stdout) != mirror(ast):
                                    r.violation('process JSON does not mirror the AST', {'text': text}, 'differs', size=len(text))
                            except ValueError as e:
                                r.violation('process stdout is not strict JSON', {'text': text}, str(e), size=len(text))
            # texts outside ASCII: well-formed Unicode and a raw non-UTF-8 byte in the argument vector (decoded by the
            # interpreter with surrogateescape), x 3 I/O configurations of the process; files in UTF-8 and not
            uni = [('unicode', 'globally: no a {sa = "caf\u00e9 \u2192 \U0001f600"}'.encode('utf-8')), ('unicode-title', '# title: "\u00fcber \u4e2d" globally: some b'.encode('utf-8')),
                   ('raw-byte', b'globally: no a {sa = "x\xffy"}'), ('raw-byte-title', b'# description: "\xfe\xff" globally: no a')]
            for cname, raw in uni if part == 'unicode' else []:
                text = os.fsdecode(raw)
                st, ast = expected_outcome('prop', text)
                for ename, extra in (('default', {}), ('ascii-stdout', {'PYTHONIOENCODING': 'ascii'}), ('C-locale', {'LC_ALL': 'C', 'LANG': 'C'}), ('utf8-mode', {'PYTHONUTF8': '1'})):
                    for want_json in (True, False):
                        r.count('evaluations')
                        r.count('states')
                        r.count('transitions')
                        e2 = dict(env)
                        e2.pop('PYTHONIOENCODING', None)
                        e2.update(extra)
                        argv = [sys.executable, '-m', 'hpl', '-p'] + (['-o', 'json'] if want_json else []) + [raw]
                        p = subprocess.run(argv, capture_output=True, env=e2, timeout=120)
                        want = 0 if st == 'ok' else 1
                        r.outcomes[f'process:{cname}:{ename}:{st}:exit={p.returncode}'] += 1
                        wit = {'argv_bytes': raw.decode('latin-1'), 'env': extra, 'json': want_json}
                        if p.returncode != want:
                            r.violation('process exit status wrong [text outside ASCII]', wit, f'{cname}, {ename}: exit {p.returncode}, expected {want}; output {(p.stdout + p.stderr)[-200:]!r}', size=len(raw))
                        elif st == 'ok' and want_json:
                            try:
                                doc = strict_loads(p.stdout.decode('utf-8'))
                                if doc != mirror(ast):
                                    r.violation('process JSON does not mirror the AST [text outside ASCII]', wit, f'{cname}, {ename}: {_first_diff(doc, mirror(ast))}', size=len(raw))
                            except ValueError as e:
                                r.violation('process stdout is not strict JSON [text outside ASCII]', wit, f'{cname}, {ename}: {e}', size=len(raw))
            for cname, raw, want in () if part != 'unicode' else (('utf8-file', 'globally: no a {sa = "caf\u00e9"}\n'.encode('utf-8'), 0), ('latin1-file', 'globally: no a {sa = "caf\u00e9"}\n'.encode('latin-1'), 1)):
                path = os.path.join(d, cname + '.hpl')
                with open(path, 'wb') as fh:
                    fh.write(raw)
                for want_json in (True, False):
                    r.count('evaluations')
                    r.count('states')
                    r.count('transitions')
                    p = subprocess.run([sys.executable, '-m', 'hpl'] + (['-o', 'json'] if want_json else []) + [path], capture_output=True, env=env, timeout=120)
                    r.outcomes[f'process:{cname}:exit={p.returncode}'] += 1
                    if p.returncode != want:
                        r.violation('process exit status wrong [file outside ASCII]', {'file_bytes': raw.decode('latin-1'), 'json': want_json}, f'{cname}: exit {p.returncode}, expected {want}', size=len(raw))
                    elif want == 0 and want_json:
                        try:
                            doc = strict_loads(p.stdout.decode('utf-8'))
                            exp_doc = mirror(expected_outcome('spec', raw.decode('utf-8'))[1])
                            if doc != exp_doc:
                                r.violation('process JSON does not mirror the AST [file outside ASCII]', {'file_bytes': raw.decode('latin-1')}, str(_first_diff(doc, exp_doc)), size=len(raw))
                        except ValueError as e:
                            r.violation('process stdout is not strict JSON [file outside ASCII]', {'file_bytes': raw.decode('latin-1')}, str(e), size=len(raw))
            # one process, both modes, both orders: a -p call and a file call must not influence each other
            two = os.path.join(d, 'two.hpl')
            with open(two, 'w', encoding='utf-8') as fh:
                fh.write('globally: no a\n# id: second\nafter b: some c within 2 s\n')
            script = (
                'import sys, io, json, contextlib\n'
                'from hpl.cli import main\n'
                'out = []\n'
                'for argv in json.loads(sys.argv[1]):\n'
                '    buf = io.StringIO()\n'
                '    with contextlib.redirect_stdout(buf), contextlib.redirect_stderr(io.StringIO()):\n'
                '        rv = main(argv)\n'
                '    out.append([rv, buf.getvalue()])\n'
                'print(json.dumps(out))\n'
            )
            calls_p = ['-p', '-o', 'json', 'globally: no a']
            calls_f = ['-o', 'json', two]
            for order in ([calls_p, calls_f, calls_p], [calls_f, calls_p, calls_f], [calls_f, calls_f], [calls_p, calls_p]) if part == 'multi' else ():
                r.count('evaluations')
                r.count('states')
                r.count('transitions', len(order))
                pr = subprocess.run([sys.executable, '-c', script, json.dumps(order)], capture_output=True, text=True, env=env, timeout=300)
                try:
                    results = json.loads(pr.stdout)
                except ValueError:
                    r.violation('one process, several calls: the driver crashed', {'order': [c[0] for c in order]}, pr.stderr[-300:], size=len(order))
                    continue
                for argv, (rv, outp) in zip(order, results):
                    what_ = 'property' if argv[0] == '-p' else 'file'
                    ok = rv == 0
                    try:
                        doc = strict_loads(outp)
                        ok = ok and ((what_ == 'property' and 'scope' in doc and 'properties' not in doc) or (what_ == 'file' and len(doc.get('properties', [])) == 2))
                    except ValueError:
                        ok = False
                    if not ok:
                        r.violation('the result of a call depends on an earlier call in the same process', {'order': [c[0] for c in order]},
                                    f'calls {[("-p" if c[0] == "-p" else "file") for c in order]}: the {what_} call returned {rv} with output {outp[:100]!r}', size=len(order))
                        break
        finally:
            shutil.rmtree(d, ignore_errors=True)
        r.sample({'process': 'python -m hpl -p -o json ' + VALID_PROPS[5]})
    r.count('validated', r.counters['evaluations'])
    return r


def replay(w):
    r = Result()
    if 'argv_bytes' in w or 'file_bytes' in w or 'order' in w or 'argv' not in w:
        return [{'sig': v['sig'], 'detail': v['detail']} for v in [v for part in ('classes', 'unicode', 'multi') for v in run(('subprocess', 'quick', part)).violations]]
    argv = w['argv']
    if 'long_file_shard' in w:
        return [{'sig': v['sig'], 'detail': v['detail']} for v in run(('files', 'thorough', w['long_file_shard'], 24)).violations]
    if '<file>' in argv or '<missing>' in argv:
        d = tempfile.mkdtemp(prefix='hplmc_c19_')
        try:
            path = os.path.join(d, 'f.hpl')
            if 'content' in w:
                open(path, 'w', encoding='utf-8').write(w['content'])
            argv = argv[:-1] + [path]
            return [{'sig': k, 'detail': dd} for k, dd in check_case(argv, 'spec', w.get('content'), '-o' in argv, r, 'file')]
        finally:
            shutil.rmtree(d, ignore_errors=True)
    return [{'sig': k, 'detail': d} for k, d in check_case(argv, 'prop', argv[-1], ('-o' in argv or '--output' in argv), r, '-p')]


def describe(tier):
    b = bounds(tier)
    return {
        'rule': f"Plus files just beyond 4 KiB, 8 KiB, 64 KiB, 128 KiB (thorough: 1 MiB) of annotated properties: valid throughout, with a syntax error in the last property, with the first id repeated by the last property. -p: every property skeleton (widths <= {b['max_width']}) x 3 decorations, 11 fixed valid texts covering every node kind incl. INF/NAN/PI/E and metadata, 8 invalid texts (syntax, sanity, type, unknown function, duplicate metadata, empty) x with/without -o json x short/long options; the first valid texts again WITHOUT -p (a file of that name does not exist: exit 1, no JSON); files: all 1- and 2-property files and a fifth of the 3-property files over the 11 valid texts, every invalid text at positions 0..2, empty / blank / dangling-annotation files, a missing file and a directory x with/without -o json; real processes: one text per outcome class x 4 configurations; 4 texts outside ASCII (well-formed Unicode, a raw non-UTF-8 byte in the argument vector) x 4 I/O configurations of the process (default, ascii stdout, C locale, UTF-8 mode) x with/without -o json, and a UTF-8 and a Latin-1 file; and one process that makes 2-3 calls mixing -p and file mode in both orders (expectations hard-coded, not taken from the library). A transition = one hpl.cli.main call (or process).",
        'bounds': b,
        'exhaustive': True,
        'assumptions': ['the library parser called directly decides "parses"; strict JSON = json.loads rejecting NaN/Infinity constants'],
    }
