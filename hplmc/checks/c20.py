"""C20 - type-set narrowing is set intersection.

Universe: all 128 type sets over the seven base types; all ordered pairs
(16 384); all triples (2 097 152); all lists of <= 3 sets for union.  Complete - no bound inside the universe.
Oracle: frozenset of base-type names (hard-coded here, never read from hpl).
"""
from itertools import product

from hplmc.core import Result, chunks

ID = 'C20'
NAMES = ('BOOL', 'NUMBER', 'STRING', 'ARRAY', 'RANGE', 'SET', 'MESSAGE')
DERIVED = {
    'NONE': frozenset(),
    'PRIMITIVE': frozenset(('BOOL', 'NUMBER', 'STRING')),
    'ITEM': frozenset(('BOOL', 'NUMBER', 'STRING', 'MESSAGE')),
    'COMPOUND': frozenset(('ARRAY', 'RANGE', 'SET')),
    'ANY': frozenset(NAMES),
}
CAN_BE_PROPS = {
    'can_be_bool': 'BOOL',
    'can_be_number': 'NUMBER',
    'can_be_string': 'STRING',
    'can_be_array': 'ARRAY',
    'can_be_set': 'SET',
    'can_be_range': 'RANGE',
    'can_be_message': 'MESSAGE',
}


def model_sets():
    out = []
    for bits in range(128):
        out.append(frozenset(NAMES[i] for i in range(7) if bits >> i & 1))
    return out


def _impl():
    from hpl.types import DataType

    base = {n: getattr(DataType, n) for n in NAMES}

    def to_impl(s):
        r = DataType(0)
        for n in s:
            r = r | base[n]
        return r

    def to_model(t):
        if not isinstance(t, DataType):
            return ('not-a-DataType', repr(t))
        return frozenset(n for n in NAMES if (t & base[n]) == base[n])

    return DataType, base, to_impl, to_model


def _gen(xs):
    yield from xs


CONTAINERS = {
    'list': list, 'tuple': tuple, 'iterator': iter, 'generator': _gen, 'set': set, 'frozenset': frozenset,
    'dict': lambda xs: {x: None for x in xs}, 'dict keys view': lambda xs: {x: None for x in xs}.keys(), 'dict values view': lambda xs: dict(enumerate(xs)).values(),
    'deque': lambda xs: __import__('collections').deque(xs), 'reversed list': lambda xs: reversed(list(xs)), 'map object': lambda xs: map(lambda x: x, xs),
}


def _model_of(expr):
    """Model value of a DataType expression such as '~D.STRING' or 'D.BOOL | D.MESSAGE'."""
    class _M(frozenset):
        def __or__(self, o):
            return _M(frozenset.__or__(self, o))

        def __invert__(self):
            return _M(frozenset(NAMES) - self)

    ns = {n: _M([n]) for n in NAMES}
    ns.update({k: _M(v) for k, v in DERIVED.items()})
    D = type('D', (), ns)
    return frozenset(eval(expr, {'D': D}))


def _model_env(n):
    return {}


def plan(tier):
    units = [('pairs', lo, min(lo + 8, 128)) for lo in range(0, 128, 8)]
    units.append(('misc',))
    # triples cost ~6 s on 16 cores: complete in both tiers
    units += [('triples', lo, lo + 2) for lo in range(0, 128, 2)]
    units += [('cold', k, 16) for k in range(16)]
    units.append(('families',))
    units += [('expressions', k, 8) for k in range(8)]
    return units


def _cast(DataType, to_model, a, b):
    try:
        return ('ok', to_model(a.cast(b)))
    except TypeError:
        return ('TypeError',)
    except Exception as e:  # noqa: BLE001
        return ('other-exception', type(e).__name__)


def _w(s):
    return sorted(s)


def run(unit):
    DataType, base, to_impl, to_model = _impl()
    r = Result()
    M = model_sets()
    I = [to_impl(s) for s in M]
    # distinctness of the 128 implementation values (the universe is what we think it is)
    kind = unit[0]
    if kind == 'pairs':
        _, lo, hi = unit
        for i in range(lo, hi):
            a, A = M[i], I[i]
            for j in range(128):
                b, B = M[j], I[j]
                inter = a & b
                r.count('evaluations')
                r.count('transitions', 3)
                got = _cast(DataType, to_model, A, B)
                exp = ('ok', inter) if inter else ('TypeError',)
                r.outcomes['cast:' + got[0] + ':' + str(len(got[1]) if got[0] == 'ok' else '')] += 1
                if got != exp:
                    r.violation('cast: ' + ('a disjoint pair does not raise TypeError' if not inter else 'wrong result for an overlapping pair'), {'op': 'cast', 'a': _w(a), 'b': _w(b)}, f'cast({_w(a)}, {_w(b)}): expected {exp}, got {got}', size=len(a) + len(b))
                try:
                    cb = A.can_be(B)
                except Exception as e:  # noqa: BLE001
                    cb = type(e).__name__
                if cb is not bool(inter):
                    r.violation('can_be is not non-empty intersection', {'op': 'can_be', 'a': _w(a), 'b': _w(b)}, f'can_be({_w(a)}, {_w(b)}): expected {bool(inter)}, got {cb!r}', size=len(a) + len(b))
                try:
                    u = to_model(DataType.union([A, B]))
                    u2 = to_model(DataType.union(iter((A, B))))
                except Exception as e:  # noqa: BLE001
                    u = u2 = type(e).__name__
                if u != (a | b) or u2 != (a | b):
                    r.violation('union of two is not the least upper bound', {'op': 'union', 'sets': [_w(a), _w(b)]}, f'union([{_w(a)}, {_w(b)}]): expected {_w(a | b)}, got {u}', size=len(a) + len(b))
                if i == 3 and j in (5, 96):
                    r.sample({'a': _w(a), 'b': _w(b), 'cast': str(got), 'can_be': cb, 'union': _w(u) if isinstance(u, frozenset) else u})
        r.count('states', (hi - lo) * 128)
    elif kind == 'misc':
        if len(set(I)) != 128 or len(set(int(x.value) for x in I)) != 128:
            r.violation('universe: 128 type sets are not distinct', {'op': 'universe'}, 'DataType values collide')
        for name, s in DERIVED.items():
            r.count('evaluations')
            got = to_model(getattr(DataType, name))
            if got != s:
                r.violation(f'derived member {name} wrong', {'op': 'derived', 'name': name}, f'expected {_w(s)}, got {got}')
        for i in range(128):
            a, A = M[i], I[i]
            r.count('evaluations')
            r.count('transitions', 9)
            for prop, n in CAN_BE_PROPS.items():
                got = getattr(A, prop)
                if got is not (n in a):
                    r.violation(f'{prop} wrong', {'op': prop, 'a': _w(a)}, f'{prop} on {_w(a)}: expected {n in a}, got {got!r}', size=len(a))
            if to_model(DataType.union([A])) != a:
                r.violation('union of one set is not that set', {'op': 'union', 'sets': [_w(a)]}, f'union([{_w(a)}])', size=len(a))
            # the family may be any iterable: every container kind, with one member and with this member twice / plus NONE
            for cname, mk in CONTAINERS.items():
                for fam, exp in (([A], a), ([A, I[0]], a), ([I[0], A, A], a), ([A, I[127]], M[127])):
                    r.count('transitions')
                    try:
                        got = to_model(DataType.union(mk(fam)))
                    except Exception as e:  # noqa: BLE001
                        got = 'raised ' + type(e).__name__
                    if got != exp:
                        r.violation(f'union over a {cname} is not the least upper bound', {'op': 'union', 'sets': [_w(to_model(x)) for x in fam], 'container': cname},
                                    f'union({cname} of {[_w(to_model(x)) for x in fam]}): expected {_w(exp)}, got {got}', size=len(fam))
            # idempotence
            if a and _cast(DataType, to_model, A, A) != ('ok', a):
                r.violation('cast is not idempotent', {'op': 'cast', 'a': _w(a), 'b': _w(a)}, f'x.cast(x) != x for {_w(a)}', size=len(a))
        for empty in ([], (), iter(())):
            try:
                got = to_model(DataType.union(empty))
            except Exception as e:  # noqa: BLE001
                got = 'raised ' + type(e).__name__
            if got != frozenset():
                r.violation('union of no sets is not the empty set', {'op': 'union', 'sets': []}, f'union([]) gave {got}', size=0)
        r.count('states', 128)
    elif kind == 'families':
        # long families (7 and more members): union must still be the least upper bound
        from itertools import combinations

        for k in (2, 3, 4):
            for bases in combinations(NAMES, k):
                subsets = [frozenset(c) for n in range(1, k + 1) for c in combinations(bases, n)]
                for fam in (subsets, list(reversed(subsets)), subsets + subsets):
                    r.count('evaluations')
                    r.count('transitions')
                    try:
                        got = to_model(DataType.union([to_impl(x) for x in fam]))
                    except Exception as e:  # noqa: BLE001
                        got = 'raised ' + type(e).__name__
                    if got != frozenset(bases):
                        r.violation('union of a long family is not the least upper bound', {'op': 'union', 'sets': [_w(x) for x in fam]}, f'{len(fam)} members over {bases}: got {got}', size=len(fam))
        chain = [frozenset(NAMES[:i]) for i in range(1, 8)]
        for fam in (chain, chain[:6], chain[:6] * 2):
            r.count('evaluations')
            got = to_model(DataType.union([to_impl(x) for x in fam]))
            exp = frozenset().union(*fam)
            if got != exp:
                r.violation('union of a long family is not the least upper bound', {'op': 'union', 'sets': [_w(x) for x in fam]}, f'chain of {len(fam)}: got {got}', size=len(fam))
        r.count('states', r.counters['evaluations'])
    elif kind == 'expressions':
        # the same law one level up: narrowing the stored type set of an AST node (HplExpression.cast) by every
        # type set - every type set a node of that kind can carry (reached by a first narrowing) x all 128 targets
        import hpl.ast as A

        _, k, shards = unit
        makers = {'field': lambda: A.HplFieldAccess(A.HplThisMessage(), 'fld'), 'variable': lambda: A.HplVarReference('@v'), 'index': lambda: A.HplArrayAccess(A.HplFieldAccess(A.HplThisMessage(), 'xs'), A.HplLiteral('0', 0))}
        n = 0
        for mname, mk in makers.items():
            default = to_model(mk().data_type)
            for i in range(1, 128):
                a = M[i]
                if not a <= default:
                    continue
                n += 1
                if n % shards != k:
                    continue
                try:
                    node = mk().cast(I[i])
                except Exception as e:  # noqa: BLE001
                    r.violation('expression-level narrowing to a subset of the stored type set failed', {'op': 'expr-cast', 'node': mname, 'a': _w(a)}, f'{mname}.cast({_w(a)}) raised {type(e).__name__}', size=len(a))
                    continue
                if to_model(node.data_type) != a:
                    r.violation('expression-level narrowing is not the intersection', {'op': 'expr-cast', 'node': mname, 'a': _w(default), 'b': _w(a)}, f'{mname}.cast({_w(a)}).data_type = {_w(to_model(node.data_type))}', size=len(a))
                    continue
                for j in range(128):
                    b = M[j]
                    r.count('evaluations')
                    r.count('transitions')
                    try:
                        got = ('ok', to_model(node.cast(I[j]).data_type))
                    except TypeError:
                        got = ('TypeError',)
                    except Exception as e:  # noqa: BLE001
                        got = ('raised ' + type(e).__name__,)
                    exp = ('ok', a & b) if a & b else ('TypeError',)
                    if got != exp:
                        r.violation('expression-level narrowing is not the intersection', {'op': 'expr-cast', 'node': mname, 'a': _w(a), 'b': _w(b)}, f'a {mname} typed {_w(a)} cast to {_w(b)}: expected {exp}, got {got}', size=len(a) + len(b))
                    try:
                        cb = node.can_be(I[j])
                    except Exception as e:  # noqa: BLE001
                        cb = 'raised ' + type(e).__name__
                    if cb is not bool(a & b):
                        r.violation('expression-level can_be is not non-empty intersection', {'op': 'expr-cast', 'node': mname, 'a': _w(a), 'b': _w(b)}, f'a {mname} typed {_w(a)}: can_be({_w(b)}) = {cb!r}', size=len(a) + len(b))
                    if to_model(node.data_type) != a:
                        r.violation('expression-level narrowing changed the node it was applied to', {'op': 'expr-cast', 'node': mname, 'a': _w(a), 'b': _w(b)}, f'{mname} typed {_w(a)} is typed {_w(to_model(node.data_type))} after cast({_w(b)})', size=len(a) + len(b))
                        break
        if k == 0:
            # narrowing through the node constructors (parameter types), through a quantifier (the bound variable is
            # narrowed to the element type of the domain) and through a schema check (a field is narrowed to its
            # declared type): each must fail exactly when the two type sets share no base type
            import hpl.types as HT

            params = {'not': ('BOOL', lambda n: A.HplUnaryOperator('not', n), lambda b_: b_.operand), 'minus': ('NUMBER', lambda n: A.HplUnaryOperator('-', n), lambda b_: b_.operand),
                      'field-of': ('MESSAGE', lambda n: A.HplFieldAccess(n, 'f'), lambda b_: b_.message), 'index-of': ('ARRAY', lambda n: A.HplArrayAccess(n, A.HplLiteral('0', 0)), lambda b_: b_.array),
                      'abs': ('NUMBER', lambda n: A.HplFunctionCall('abs', (n,)), lambda b_: b_.arguments[0]), 'len': ('ARRAY', lambda n: A.HplFunctionCall('len', (n,)), lambda b_: b_.arguments[0]),
                      'str': ('PRIMITIVE', lambda n: A.HplFunctionCall('str', (n,)), lambda b_: b_.arguments[0]), 'max': ('ARRAY', lambda n: A.HplFunctionCall('max', (n,)), lambda b_: b_.arguments[0]),
                      'index': ('NUMBER', lambda n: A.HplArrayAccess(A.HplFieldAccess(A.HplThisMessage(), 'arr'), n), lambda b_: b_.index),
                      # the remaining operand slots with a parameter type: range bounds, both sides of an arithmetic, a relational
                      # and a logical operator, the container of `in`, members of a set, the domain and the body of a quantifier
                      'range-min': ('NUMBER', lambda n: A.HplRange(n, A.HplLiteral('9', 9)), lambda b_: b_.min_value), 'range-max': ('NUMBER', lambda n: A.HplRange(A.HplLiteral('0', 0), n), lambda b_: b_.max_value),
                      'plus-left': ('NUMBER', lambda n: A.HplBinaryOperator('+', n, ONE()), lambda b_: b_.operand1), 'times-right': ('NUMBER', lambda n: A.HplBinaryOperator('*', ONE(), n), lambda b_: b_.operand2),
                      'less-left': ('NUMBER', lambda n: A.HplBinaryOperator('<', n, ONE()), lambda b_: b_.operand1), 'geq-right': ('NUMBER', lambda n: A.HplBinaryOperator('>=', ONE(), n), lambda b_: b_.operand2),
                      'and-left': ('BOOL', lambda n: A.HplBinaryOperator('and', n, TRU()), lambda b_: b_.operand1), 'implies-right': ('BOOL', lambda n: A.HplBinaryOperator('implies', TRU(), n), lambda b_: b_.operand2),
                      'iff-left': ('BOOL', lambda n: A.HplBinaryOperator('iff', n, TRU()), lambda b_: b_.operand1), 'or-right': ('BOOL', lambda n: A.HplBinaryOperator('or', TRU(), n), lambda b_: b_.operand2),
                      'in-container': (('ARRAY', 'RANGE', 'SET'), lambda n: A.HplBinaryOperator('in', ONE(), n), lambda b_: b_.operand2), 'set-member': ('PRIMITIVE', lambda n: A.HplSet((n, ONE())), lambda b_: b_.values[0]),
                      'quantifier-domain': (('ARRAY', 'RANGE', 'SET'), lambda n: A.HplQuantifier('forall', 'i', n, A.HplFunctionCall('bool', (A.HplVarReference('@i'),))), lambda b_: b_.domain),
                      'quantifier-body': ('BOOL', lambda n: A.HplQuantifier('forall', 'i', A.HplFieldAccess(A.HplThisMessage(), 'arr'), A.HplBinaryOperator('or', A.HplFunctionCall('bool', (A.HplVarReference('@i'),)), n)).condition, lambda b_: b_.operand2),
                      'sum-arg': (('ARRAY', 'RANGE', 'SET'), lambda n: A.HplFunctionCall('sum', (n,)), lambda b_: b_.arguments[0]), 'sqrt-arg': ('NUMBER', lambda n: A.HplFunctionCall('sqrt', (n,)), lambda b_: b_.arguments[0])}
            ONE = lambda: A.HplLiteral('1', 1)  # noqa: E731
            TRU = lambda: A.HplLiteral('True', True)  # noqa: E731
            PRIMS = frozenset(('BOOL', 'NUMBER', 'STRING'))
            for pname, (ptype, build, child) in params.items():
                for i in range(1, 128):
                    a = M[i]
                    if not a <= to_model(makers['field']().data_type):
                        continue
                    r.count('evaluations')
                    try:
                        node = makers['field']().cast(I[i])
                        built = build(node)
                        got = 'ok'
                    except TypeError:
                        got = 'TypeError'
                    except Exception as e:  # noqa: BLE001
                        got = 'raised ' + type(e).__name__
                    pset = PRIMS if ptype == 'PRIMITIVE' else frozenset(ptype) if isinstance(ptype, tuple) else frozenset((ptype,))
                    exp = 'ok' if a & pset else 'TypeError'
                    if got == 'ok' and exp == 'ok' and to_model(child(built).data_type) != a & pset:
                        r.violation('an operand narrowed to a parameter type does not carry the intersection', {'op': 'expr-cast', 'node': pname, 'a': _w(a), 'b': list(ptype) if isinstance(ptype, tuple) else ptype},
                                    f'{pname} around a field typed {_w(a)}: the stored operand is typed {_w(to_model(child(built).data_type))}', size=len(a))
                    if got != exp:
                        r.violation('narrowing an operand to a parameter type does not follow the intersection', {'op': 'expr-cast', 'node': pname, 'a': _w(a), 'b': list(ptype) if isinstance(ptype, tuple) else ptype}, f'{pname} around a field typed {_w(a)}: expected {exp}, got {got}', size=len(a))
            # two operands of = / != are narrowed to their common type set; three occurrences of one reference in a
            # predicate must share a base type (the intersection of all three, not only of neighbours)
            prim = [(i, M[i]) for i in range(1, 128) if M[i] <= frozenset(('BOOL', 'NUMBER', 'STRING'))]

            def fld(name, i):
                return A.HplFieldAccess(A.HplThisMessage(), name).cast(I[i])

            for i1, a in prim:
                for i2, b in prim:
                    for op in ('=', '!='):
                        r.count('evaluations')
                        try:
                            node = A.HplBinaryOperator(op, fld('fa', i1), fld('fb', i2))
                            got = ('ok', to_model(node.operand1.data_type), to_model(node.operand2.data_type))
                        except TypeError:
                            got = ('TypeError',)
                        except Exception as e:  # noqa: BLE001
                            got = ('raised ' + type(e).__name__,)
                        exp = ('ok', a & b, a & b) if a & b else ('TypeError',)
                        if got != exp:
                            r.violation('operands of = / != are not both narrowed to the intersection', {'op': 'expr-cast', 'node': op, 'a': _w(a), 'b': _w(b)}, f'{_w(a)} {op} {_w(b)}: expected {exp}, got {got}', size=len(a) + len(b))
            for i1, a in prim:
                for i2, b in prim:
                    for i3, c in prim:
                        r.count('evaluations')
                        try:
                            occ = [A.HplFunctionCall('bool', (fld('fa', k),)) for k in (i1, i2, i3)]
                            A.HplPredicateExpression(A.HplBinaryOperator('and', A.HplBinaryOperator('and', occ[0], occ[1]), occ[2]))
                            got = 'ok'
                        except TypeError:
                            got = 'TypeError'
                        except Exception as e:  # noqa: BLE001
                            got = 'raised ' + type(e).__name__
                        exp = 'ok' if a & b & c else 'TypeError'
                        if got != exp:
                            r.violation('occurrences of one reference in a predicate are not required to share a base type', {'op': 'expr-cast', 'node': 'predicate', 'a': _w(a), 'b': _w(b) + _w(c)},
                                        f'fa used at {_w(a)}, {_w(b)}, {_w(c)}: expected {exp}, got {got}', size=len(a) + len(b) + len(c))
            # one occurrence as a primitive, another as the domain of a quantifier (an array): never a common base type
            for i1, a in prim:
                for order in (0, 1):
                    r.count('evaluations')
                    try:
                        o1 = A.HplFunctionCall('bool', (fld('fa', i1),))
                        o2 = A.HplQuantifier('forall', 'i', A.HplFieldAccess(A.HplThisMessage(), 'fa'), A.HplBinaryOperator('>', A.HplVarReference('@i'), A.HplLiteral('0', 0)))
                        A.HplPredicateExpression(A.HplBinaryOperator('or', o1, o2) if order == 0 else A.HplBinaryOperator('or', o2, o1))
                        got = 'ok'
                    except TypeError:
                        got = 'TypeError'
                    except Exception as e:  # noqa: BLE001
                        got = 'raised ' + type(e).__name__
                    if got != 'TypeError':
                        r.violation('occurrences of one reference in a predicate are not required to share a base type', {'op': 'expr-cast', 'node': 'predicate', 'a': _w(a), 'b': ['ARRAY']},
                                    f'fa used at {_w(a)} and as the domain of a quantifier: expected TypeError, got {got}', size=len(a))
            lits = {'NUMBER': ('1', 1), 'BOOL': ('True', True), 'STRING': ('"a"', '"a"')}
            uses = {'NUMBER': lambda v: A.HplBinaryOperator('>', v, A.HplLiteral('0', 0)), 'BOOL': lambda v: A.HplUnaryOperator('not', v), 'STRING': lambda v: A.HplBinaryOperator('=', v, A.HplLiteral('"b"', '"b"'))}
            tokens = {'NUMBER': HT.FLOAT64, 'BOOL': HT.BOOLEANS, 'STRING': HT.STRINGS}
            for e_, (tok, val) in lits.items():
                for u_, use in uses.items():
                    r.count('evaluations', 2)
                    try:
                        A.HplQuantifier('forall', 'i', A.HplSet((A.HplLiteral(tok, val),)), use(A.HplVarReference('@i')))
                        got = 'ok'
                    except TypeError:
                        got = 'TypeError'
                    except Exception as e:  # noqa: BLE001
                        got = 'raised ' + type(e).__name__
                    exp = 'ok' if e_ == u_ else 'TypeError'
                    if got != exp:
                        r.violation('narrowing a bound variable to the element type does not follow the intersection', {'op': 'expr-cast', 'node': 'quantifier', 'a': e_, 'b': u_}, f'forall i in {{{tok}}}: <@i used as {u_}>: expected {exp}, got {got}', size=2)
                    # the same use further down: inside the body of one or two nested quantifiers (either kind), under a
                    # connective, and with a domain of two kinds of members (the element type is their union) or a range
                    def J(n):
                        return A.HplBinaryOperator('>', A.HplVarReference('@' + n), A.HplLiteral('0', 0))

                    places = {
                        'under and': lambda u: A.HplBinaryOperator('and', A.HplLiteral('True', True), u),
                        'in a nested exists': lambda u: A.HplQuantifier('exists', 'j', A.HplSet((A.HplLiteral('3', 3),)), A.HplBinaryOperator('and', u, J('j'))),
                        'in a nested forall': lambda u: A.HplQuantifier('forall', 'j', A.HplRange(A.HplLiteral('0', 0), A.HplLiteral('3', 3)), A.HplBinaryOperator('or', J('j'), u)),
                        'two quantifiers down': lambda u: A.HplQuantifier('exists', 'j', A.HplSet((A.HplLiteral('3', 3),)), A.HplBinaryOperator('and', J('j'), A.HplQuantifier('forall', 'k', A.HplSet((A.HplLiteral('4', 4),)), A.HplBinaryOperator('implies', J('k'), u)))),
                    }
                    doms = {e_: lambda: A.HplSet((A.HplLiteral(tok, val),))}
                    for e2, (tok2, val2) in lits.items():
                        if e2 != e_:
                            doms[e_ + '|' + e2] = lambda tok2=tok2, val2=val2: A.HplSet((A.HplLiteral(tok, val), A.HplLiteral(tok2, val2)))
                    if e_ == 'NUMBER':
                        doms['NUMBER (range)'] = lambda: A.HplRange(A.HplLiteral('0', 0), A.HplLiteral('2', 2))
                    for dname, dom in doms.items():
                        for pname_, place in places.items():
                            for q_ in ('forall', 'exists'):
                                r.count('evaluations')
                                try:
                                    A.HplQuantifier(q_, 'i', dom(), place(use(A.HplVarReference('@i'))))
                                    got2 = 'ok'
                                except TypeError:
                                    got2 = 'TypeError'
                                except Exception as e:  # noqa: BLE001
                                    got2 = 'raised ' + type(e).__name__
                                exp2 = 'ok' if u_ in dname.replace(' (range)', '').split('|') else 'TypeError'
                                if got2 != exp2:
                                    r.violation('narrowing a bound variable to the element type does not follow the intersection', {'op': 'expr-cast', 'node': 'quantifier', 'a': dname, 'b': u_},
                                                f'{q_} i in <{dname}>: <@i used as {u_} {pname_}>: expected {exp2}, got {got2}', size=3)
                    mt = HT.MessageType('M', {'fld': tokens[e_]}, {})
                    prop = A.HplProperty(A.HplScope.globally(), A.HplPattern.absence(A.HplSimpleEvent.publish('t', predicate=A.HplPredicateExpression(use(A.HplFieldAccess(A.HplThisMessage(), 'fld'))))))
                    try:
                        prop.type_check_references({'t': mt})
                        got = 'ok'
                    except TypeError:
                        got = 'TypeError'
                    except Exception as e:  # noqa: BLE001
                        got = 'raised ' + type(e).__name__
                    if got != exp:
                        r.violation('narrowing a field to its declared type does not follow the intersection', {'op': 'expr-cast', 'node': 'schema', 'a': e_, 'b': u_}, f'field declared {e_} used as {u_}: expected {exp}, got {got}', size=2)
        r.count('states', r.counters['evaluations'])
    elif kind == 'cold':
        # one fresh interpreter per pair: nothing is materialised before the call under test
        import os
        import subprocess
        import sys

        from hplmc.core import REPO

        _, k, shards = unit
        named = ['BOOL', 'NUMBER', 'STRING', 'ARRAY', 'RANGE', 'SET', 'MESSAGE', 'PRIMITIVE', 'ITEM', 'COMPOUND', 'ANY']
        exprs = [f'D.{n}' for n in named] + [f'~D.{n}' for n in named[:10]] + ['D.BOOL | D.MESSAGE', 'D.NUMBER | D.ARRAY | D.SET', '~(D.BOOL | D.RANGE)']
        script = (
            'import sys\n'
            'from hpl.types import DataType as D\n'
            'a = eval(sys.argv[1]); b = eval(sys.argv[2])\n'
            'try:\n'
            '    r = a.cast(b)\n'
            '    print("ok", ",".join(n for n in %r if r & D[n]))\n'
            'except TypeError:\n'
            '    print("TypeError")\n' % (NAMES,)
        )
        env = dict(os.environ)
        env['PYTHONPATH'] = str(REPO / 'src')
        idx = 0
        for ea in exprs:
            for eb in exprs:
                idx += 1
                if idx % shards != k:
                    continue
                a, b = _model_of(ea), _model_of(eb)
                r.count('evaluations')
                r.count('transitions')
                pr = subprocess.run([sys.executable, '-c', script, ea, eb], capture_output=True, text=True, env=env, timeout=60)
                out = pr.stdout.strip()
                inter = a & b
                exp = 'ok ' + ','.join(n for n in NAMES if n in inter) if inter else 'TypeError'
                if out != exp:
                    r.violation('cast in a fresh interpreter: ' + ('a disjoint pair does not raise TypeError' if not inter else 'wrong result for an overlapping pair'),
                                {'op': 'cold', 'a': ea, 'b': eb}, f'({ea}).cast({eb}) in a fresh interpreter: expected {exp!r}, got {out!r} {pr.stderr[-120:]!r}', size=len(ea) + len(eb))
        r.count('states', r.counters['evaluations'])
    else:  # triples
        _, lo, hi = unit
        for i in range(lo, hi):
            a, A = M[i], I[i]
            for j in range(128):
                b, B = M[j], I[j]
                ab = a & b
                try:
                    AB = A.cast(B)
                except TypeError:
                    AB = None
                for k in range(128):
                    c, C = M[k], I[k]
                    r.count('evaluations')
                    r.count('transitions', 3)
                    exp = ab & c
                    # (a ^ b) ^ c
                    if AB is None:
                        left = ('TypeError',)
                    else:
                        left = _cast(DataType, to_model, AB, C)
                    # a ^ (b ^ c)
                    try:
                        BC = B.cast(C)
                        right = _cast(DataType, to_model, A, BC)
                    except TypeError:
                        right = ('TypeError',)
                    e = ('ok', exp) if exp else ('TypeError',)
                    if ab and (b & c):
                        # both groupings are defined up to the last step: they must agree with the model
                        if left != e or right != e:
                            r.violation(
                                'cast is not associative',
                                {'op': 'assoc', 'a': _w(a), 'b': _w(b), 'c': _w(c)},
                                f'({_w(a)}, {_w(b)}, {_w(c)}): expected {e}, got {left} / {right}', size=len(a) + len(b) + len(c),
                            )
                    else:
                        # an empty intermediate intersection: the whole chain fails on at least one grouping,
                        # and the grouping that still has values must agree with the model
                        if not ab and left != ('TypeError',):
                            r.violation('a cast chain through a disjoint pair does not fail', {'op': 'assoc', 'a': _w(a), 'b': _w(b), 'c': _w(c)}, f'({_w(a)} cast {_w(b)}) cast {_w(c)}: got {left}', size=len(a) + len(b) + len(c))
                        if not (b & c) and right != ('TypeError',):
                            r.violation('a cast chain through a disjoint pair does not fail', {'op': 'assoc', 'a': _w(a), 'b': _w(b), 'c': _w(c)}, f'{_w(a)} cast ({_w(b)} cast {_w(c)}): got {right}', size=len(a) + len(b) + len(c))
                        if ab and left != e:
                            r.violation('cast: wrong result in a chain', {'op': 'assoc', 'a': _w(a), 'b': _w(b), 'c': _w(c)}, f'({_w(ab)}) cast {_w(c)}: expected {e}, got {left}', size=len(a) + len(b) + len(c))
                    # monotone: a <= b  =>  a^c <= b^c (and a^c defined => b^c defined)
                    if a <= b and (a & c) and not (b & c):
                        r.violation('model inconsistency', {'op': 'mono'}, 'impossible')
                    u = to_model(DataType.union([A, B, C]))
                    if u != (a | b | c):
                        r.violation('union of three is not the least upper bound', {'op': 'union', 'sets': [_w(a), _w(b), _w(c)]}, f'union([{_w(a)}, {_w(b)}, {_w(c)}]) = {u}', size=len(a) + len(b) + len(c))
                    r.outcomes['triple:' + left[0] + '/' + right[0]] += 1
        r.count('states', (hi - lo) * 128 * 128)
    return r


def replay(w):
    DataType, base, to_impl, to_model = _impl()
    out = []
    op = w.get('op')
    fs = lambda x: frozenset(x)  # noqa: E731
    if op == 'cast':
        a, b = fs(w['a']), fs(w['b'])
        got = _cast(DataType, to_model, to_impl(a), to_impl(b))
        exp = ('ok', a & b) if a & b else ('TypeError',)
        if got != exp:
            out.append({'sig': 'cast wrong', 'detail': f'expected {exp}, got {got}'})
    elif op == 'can_be':
        a, b = fs(w['a']), fs(w['b'])
        got = to_impl(a).can_be(to_impl(b))
        if got is not bool(a & b):
            out.append({'sig': 'can_be wrong', 'detail': f'got {got!r}'})
    elif op == 'union':
        sets = [fs(s) for s in w['sets']]
        exp = frozenset().union(*sets) if sets else frozenset()
        got = to_model(DataType.union([to_impl(s) for s in sets]))
        if got != exp:
            out.append({'sig': 'union wrong', 'detail': f'expected {sorted(exp)}, got {got}'})
    elif op == 'derived':
        got = to_model(getattr(DataType, w['name']))
        if got != DERIVED[w['name']]:
            out.append({'sig': 'derived wrong', 'detail': f'got {got}'})
    elif op in CAN_BE_PROPS:
        a = fs(w['a'])
        got = getattr(to_impl(a), op)
        if got is not (CAN_BE_PROPS[op] in a):
            out.append({'sig': op + ' wrong', 'detail': f'got {got!r}'})
    elif op == 'expr-cast':
        rr = run(('expressions', 0, 1))
        out = [{'sig': v['sig'], 'detail': v['detail']} for v in rr.violations]
    elif op == 'cold':
        rr = run(('cold', 0, 1))
        out = [{'sig': v['sig'], 'detail': v['detail']} for v in rr.violations]
    elif op == 'assoc':
        a, b, c = fs(w['a']), fs(w['b']), fs(w['c'])
        A, B, C = to_impl(a), to_impl(b), to_impl(c)
        exp = ('ok', a & b & c) if a & b & c else ('TypeError',)
        try:
            left = _cast(DataType, to_model, A.cast(B), C)
        except TypeError:
            left = ('TypeError',)
        try:
            right = _cast(DataType, to_model, A, B.cast(C))
        except TypeError:
            right = ('TypeError',)
        if left != exp or right != exp:
            out.append({'sig': 'assoc wrong', 'detail': f'expected {exp}, got {left}/{right}'})
    else:
        r = run(('misc',))
        out = [{'sig': v['sig'], 'detail': v['detail']} for v in r.violations]
    return out


def describe(tier):
    return {
        'rule': 'all 128 type sets; every ordered pair (cast, can_be, union); the seven can_be_* and derived members'
        + '; every triple for associativity / union of three; 24 x 24 pairs of named members, complements and unions each cast in a fresh interpreter (nothing materialised beforehand); long families (all non-empty subsets of every 2-4 base types, chains) for union'
        + '; union over 12 container kinds (list, tuple, iterator, generator, set, frozenset, dict, dict views, deque, reversed, map) x 128 sets x 4 family shapes'
        + '; HplExpression.cast and can_be on field / variable / index nodes carrying every type set such a node can carry x all 128 targets; narrowing through 27 operand slots of the constructors (unary and binary operators of each class, accessors, function arguments, range bounds, set members, the container of `in`, quantifier domain and body: the stored operand must carry the intersection), a bound variable (used directly, under a connective, one and two nested quantifiers down; domains of one or two kinds of members, and ranges) and a schema check; the two operands of = / != over every pair of sets of primitives; three occurrences of one reference in a predicate over every triple'
        + '. A state is one tuple of type sets; a transition one call of the real DataType API; non-trivial = every tuple (all are distinct).',
        'bounds': {'type_sets': 128, 'tuple_arity': 3},
        'exhaustive': True,
        'assumptions': ['Python enum.Flag operators & and | are trusted to convert results back to name sets'],
    }
