"""Shared runner machinery: environment, parallel map (E6), result merging,
evidence / replay writers, known-findings lookup.

A check module (hplmc/checks/cNN.py) provides

    ID            'C08'
    TITLE         one line
    def plan(tier)        -> list of picklable *units* (a unit = a shard of the
                             bounded universe; enumerated completely)
    def run(unit)         -> Result  (executed in a worker process)
    def replay(witness)   -> list of violation dicts (re-executes one witness
                             against the real code without the explorer)
    def describe(tier)    -> dict with 'rule', 'bounds', 'assumptions'

The runner is deliberately boring: every unit is executed (no sampling), results
are merged in unit order so the outcome does not depend on scheduling.
"""

from __future__ import annotations

import hashlib
import json
import multiprocessing as mp
import os
import signal
import sys
import time
import traceback
from collections import Counter
from pathlib import Path

VERIF = Path(__file__).resolve().parent.parent
# where evidence/ and replays/ are written (redirected when trying a mutant so that the
# committed evidence is never overwritten by a run against a modified tree)
OUT = Path(os.environ.get('HPL_VERIF_OUT', str(VERIF)))
REPO = Path(os.environ.get('HPL_VERIF_REPO', '/repo'))
NPROC = int(os.environ.get('HPL_VERIF_JOBS', '16'))
MAX_REPORTED = 40  # replay files / VIOLATION lines per run; every signature is still counted and listed


def setup_env():
    """Make `import hpl` see the tree under test; own hash randomisation."""
    src = str(REPO / 'src')
    if src in sys.path:
        sys.path.remove(src)
    sys.path.insert(0, src)
    os.environ['HPL_SPECS_VERIF'] = '1'


def seed() -> int:
    try:
        return int(os.environ.get('VERIF_SEED', '0'))
    except ValueError:
        return 0


def ensure_hashseed():
    """Re-exec once so that PYTHONHASHSEED is fixed (derived from VERIF_SEED)."""
    want = str(seed() % 4294967295)
    if os.environ.get('PYTHONHASHSEED') != want:
        os.environ['PYTHONHASHSEED'] = want
        os.execv(sys.executable, [sys.executable] + sys.argv)


# ---------------------------------------------------------------------------
# Results
# ---------------------------------------------------------------------------


class Result:
    """Mergeable outcome of one unit."""

    __slots__ = ('counters', 'violations', 'samples', 'outcomes', 'notes', 'keys')

    def __init__(self):
        self.counters = Counter()  # evaluations, states, transitions, ...
        self.violations = []  # dicts: sig, witness, detail
        self.samples = []
        self.outcomes = Counter()  # distinct observed outcome classes
        self.notes = Counter()  # skipped / reading-sensitive / caps ...
        self.keys = set()  # optional: hashes of canonical states (dedup across units)

    def count(self, key, n=1):
        self.counters[key] += n

    def violation(self, sig, witness, detail, size=None):
        self.violations.append(
            {'sig': sig, 'witness': witness, 'detail': detail, 'size': size if size is not None else len(json.dumps(witness, default=str))}
        )

    def sample(self, s, cap=3):
        if len(self.samples) < cap:
            self.samples.append(s)

    def merge(self, other: 'Result'):
        self.counters.update(other.counters)
        self.violations.extend(other.violations)
        for s in other.samples:
            if len(self.samples) < 12:
                self.samples.append(s)
        self.outcomes.update(other.outcomes)
        self.notes.update(other.notes)
        self.keys |= other.keys


class Watchdog:
    """Per-case timeout inside a worker: non-termination becomes a failure."""

    class Timeout(BaseException):
        pass

    def __init__(self, seconds=10):
        self.seconds = seconds

    def _handler(self, signum, frame):
        raise Watchdog.Timeout()

    def __enter__(self):
        self._old = signal.signal(signal.SIGALRM, self._handler)
        signal.alarm(self.seconds)
        return self

    def __exit__(self, *exc):
        signal.alarm(0)
        signal.signal(signal.SIGALRM, self._old)
        return False


def _worker(args):
    modname, unit = args
    import importlib

    mod = importlib.import_module(modname)
    try:
        from hplmc import impl

        impl.install_default_set_order()
        return mod.run(unit)
    except BaseException as e:  # a harness crash must be loud, never silent
        r = Result()
        r.violation(
            'HARNESS-ERROR ' + type(e).__name__,
            {'unit': repr(unit)[:400]},
            'harness crashed: ' + ''.join(traceback.format_exception(type(e), e, e.__traceback__))[-3000:],
        )
        r.count('harness_errors')
        return r


def pmap(modname, units, jobs=None):
    """Run mod.run over all units on a fork-once pool; merge in unit order."""
    jobs = jobs or NPROC
    total = Result()
    if not units:
        return total
    # rotate shard order by seed: must not change any verdict or count
    k = seed() % len(units)
    order = list(range(len(units)))
    order = order[k:] + order[:k]
    if jobs <= 1 or len(units) == 1:
        results = {i: _worker((modname, units[i])) for i in order}
    else:
        ctx = mp.get_context('fork')
        with ctx.Pool(min(jobs, len(units))) as pool:
            res = pool.map(_worker, [(modname, units[i]) for i in order], chunksize=1)
        results = dict(zip(order, res))
    for i in range(len(units)):
        total.merge(results[i])
    return total


def chunks(seq, n):
    seq = list(seq)
    if not seq:
        return []
    size = max(1, (len(seq) + n - 1) // n)
    return [seq[i : i + size] for i in range(0, len(seq), size)]


# ---------------------------------------------------------------------------
# Known findings, replay files, evidence
# ---------------------------------------------------------------------------


def load_known():
    p = VERIF / 'known_findings.json'
    if not p.exists():
        return []
    return json.loads(p.read_text()).get('findings', [])


def sig_hash(sig: str) -> str:
    return hashlib.sha1(sig.encode()).hexdigest()[:12]


def finish(check_id, tier, total: Result, describe: dict, wall_s: float, level='model_checking'):
    """Print verdict lines, write replays and evidence; return exit status."""
    known = [k for k in load_known() if k.get('property') == check_id and k.get('status') == 'known']
    known_sigs = {k['signature']: k for k in known}

    # group violations by signature, keep the smallest witness of each
    by_sig = {}
    counts = Counter()
    for v in total.violations:
        counts[v['sig']] += 1
        cur = by_sig.get(v['sig'])
        if cur is None or (v['size'], json.dumps(v['witness'], sort_keys=True, default=str)) < (
            cur['size'],
            json.dumps(cur['witness'], sort_keys=True, default=str),
        ):
            by_sig[v['sig']] = v

    status = 0
    known_met = []
    new = []
    rdir = OUT / 'replays' / check_id
    for sig in sorted(by_sig):
        v = by_sig[sig]
        if sig in known_sigs:
            k = known_sigs[sig]
            print(f"KNOWN-FINDING: property={check_id} {k.get('what', sig)} [{counts[sig]} cases, e.g. {json.dumps(v['witness'], default=str)[:200]}]")
            known_met.append(sig)
            continue
        new.append(sig)
        status = 1
        if len(new) > MAX_REPORTED:
            continue  # counted; the first MAX_REPORTED signatures get a replay file and a VIOLATION line
        rdir.mkdir(parents=True, exist_ok=True)
        path = rdir / f'{sig_hash(sig)}.json'
        path.write_text(
            json.dumps(
                {
                    'property': check_id,
                    'signature': sig,
                    'witness': v['witness'],
                    'detail': v['detail'],
                    'cases_with_this_signature': counts[sig],
                    'replay_cmd': f'./check {check_id} --replay {path}',
                },
                indent=1,
                default=str,
            )
        )
        print(f'VIOLATION property={check_id} replay={path}')
        print(f'  signature: {sig}')
        print(f'  detail: {str(v["detail"])[:600]}')
    if len(new) > MAX_REPORTED:
        print(f'... and {len(new) - MAX_REPORTED} more distinct violation signatures (all listed in the evidence file)')

    c = total.counters
    evaluations = int(c.get('evaluations', 0))
    coverage = {
        'states': int(c.get('states', 0)) or evaluations,
        'transitions': int(c.get('transitions', 0)) or evaluations,
        'traces_validated_against_impl': int(c.get('validated', 0)) or evaluations,
        'evaluations': evaluations,
        'distinct_nontrivial': int(c.get('nontrivial', 0)) or int(c.get('states', 0)) or evaluations,
        'rule': describe.get('rule', ''),
        'samples': total.samples[:12] or ['(no samples recorded)'],
        'exhaustive': bool(describe.get('exhaustive', True)) and not total.notes.get('cap_hit'),
        'bounds': describe.get('bounds', {}),
        'distinct_outcomes': len(total.outcomes),
        'outcome_histogram': dict(total.outcomes.most_common(40)),
        'notes': dict(total.notes),
        'counters': {k: int(v) for k, v in sorted(c.items())},
        'known_findings_met': known_met,
        'new_violation_signatures': new,
        'tree_under_test': str(REPO),
    }
    ev = {
        'property_id': check_id,
        'tier': tier,
        'seed': seed(),
        'level': level,
        'coverage': coverage,
        'assumptions': describe.get('assumptions', []),
        'wall_s': round(wall_s, 3),
        'violations': len(new),
    }
    edir = OUT / 'evidence'
    edir.mkdir(parents=True, exist_ok=True)
    (edir / f'{check_id}.json').write_text(json.dumps(ev, indent=1, default=str) + '\n')
    print(
        f'{check_id} {tier}: evaluations={evaluations} states={coverage["states"]} '
        f'transitions={coverage["transitions"]} outcomes={len(total.outcomes)} '
        f'violations={len(new)} known={len(known_met)} wall={wall_s:.1f}s'
    )
    return status
