"""Thin access layer to the implementation under test: one parser object per
entry point per process, classification of outcomes, the set-order seam."""

from __future__ import annotations

import functools
import json
import os
import itertools


@functools.lru_cache(maxsize=None)
def parser(kind):
    import hpl.parser as P

    return {
        'expr': P.expression_parser,
        'pred': P.predicate_parser,
        'cond': P.condition_parser,
        'prop': P.property_parser,
        'spec': P.specification_parser,
    }[kind]()


def fresh_parser(kind):
    import hpl.parser as P

    return {
        'expr': P.expression_parser,
        'pred': P.predicate_parser,
        'cond': P.condition_parser,
        'prop': P.property_parser,
        'spec': P.specification_parser,
    }[kind]()


def parse(kind, text):
    return parser(kind).parse(text)


def outcome_class(exc):
    """Documented outcome classes of a parser call."""
    from hpl.errors import HplSanityError, HplSyntaxError

    if isinstance(exc, HplSyntaxError):
        return 'syntax'
    if isinstance(exc, HplSanityError):
        return 'sanity'
    if isinstance(exc, TypeError):
        return 'type'
    if isinstance(exc, ValueError):
        return 'value'
    return 'internal:' + type(exc).__name__


def try_parse(kind, text):
    """('ok', ast) | (class, exception)"""
    try:
        return ('ok', parser(kind).parse(text))
    except RecursionError as e:
        return ('internal:RecursionError', e)
    except Exception as e:  # noqa: BLE001
        if _REJECT_LOG:
            _log_rejected(kind, text, e)
        return (outcome_class(e), e)


# audit aid (tools/vacuity_audit.py): with HPLMC_LOG_REJECTED=<dir> every rejected text is logged, so that
# hand-written corpus texts that were meant to be valid but are silently skipped can be found
_REJECT_LOG = os.environ.get('HPLMC_LOG_REJECTED')
_rejected_seen = set()


def _log_rejected(kind, text, e):
    if text in _rejected_seen or len(_rejected_seen) > 200000:
        return
    _rejected_seen.add(text)
    with open(os.path.join(_REJECT_LOG, f'rej.{os.getpid()}'), 'a') as f:
        f.write(json.dumps([kind, text, type(e).__name__]) + '\n')


# ---------------------------------------------------------------------------
# the `set` seam of hpl.rewrite: iteration order of set(...) as a choice point
# ---------------------------------------------------------------------------


class OrderedSetSeam:
    """Stand-in for the builtin `set` inside hpl.rewrite.

    `hpl.rewrite` calls set(iterable) only to deduplicate and then iterates
    (list(unique) / HplSet(value_set)).  This stand-in deduplicates in insertion
    order and hands the elements out in the permutation chosen by the explorer:
    call number k uses permutation index choices[k] (default 0 = insertion
    order).  Every call is recorded as a choice point (number of distinct
    elements)."""

    def __init__(self, choices=()):
        self.choices = list(choices)
        self.points = []  # number of alternatives at each iterated set
        self.capped = 0

    def make(self):
        seam = self

        class _S:
            __slots__ = ('items', 'ordered')

            def __init__(self, iterable=()):
                uniq = []
                seen = set()
                for x in iterable:
                    if x not in seen:
                        seen.add(x)
                        uniq.append(x)
                self.items = uniq
                self.ordered = False

            def _order(self):
                # the choice point materialises when the code first *iterates*
                # (len() and membership do not depend on the order)
                if self.ordered:
                    return
                self.ordered = True
                uniq = self.items
                k = len(seam.points)
                n = len(uniq)
                nperm = 1
                for i in range(2, min(n, 4) + 1):
                    nperm *= i
                if n > 4:
                    nperm = 1  # cap: beyond 4 distinct elements only insertion order
                    seam.capped += 1
                seam.points.append(nperm)
                choice = seam.choices[k] if k < len(seam.choices) else 0
                if choice >= nperm:
                    raise RuntimeError(f'replayed set-order choice {choice} out of range {nperm} at call {k}')
                if choice:
                    self.items = list(next(itertools.islice(itertools.permutations(uniq), choice, None)))

            def __len__(self):
                return len(self.items)

            def __iter__(self):
                self._order()
                return iter(self.items)

            def __contains__(self, x):
                return x in self.items

        return _S

    def __enter__(self):
        import hpl.rewrite as R

        self._had = 'set' in R.__dict__
        self._old = R.__dict__.get('set')
        R.set = self.make()
        return self

    def __exit__(self, *exc):
        import hpl.rewrite as R

        if self._had:
            R.set = self._old
        else:
            del R.set
        return False


def install_default_set_order():
    """Own the only hash-order dependence of the implementation for every check: unless an
    explorer installs its own seam, `set(...)` inside hpl.rewrite hands elements out in insertion
    order, so results and counts do not depend on PYTHONHASHSEED."""
    import hpl.rewrite as R

    if 'set' not in R.__dict__:
        R.set = OrderedSetSeam().make()
