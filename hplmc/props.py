"""Property-level universes: scope kind x pattern kind x event forms."""

from __future__ import annotations

from itertools import product

from hplmc.universe import alias_field, num, this_field

INF = float('inf')
SCOPES = ('globally', 'after', 'until', 'after_until')
PATTERNS = ('existence', 'absence', 'response', 'requirement', 'prevention')
TWO_EVENT = ('response', 'requirement', 'prevention')

# which event is split by canonical_form (documented): behaviour of
# absence/requirement/prevention, trigger of response, nothing for existence
SPLIT_POSITION = {'absence': 'beh', 'requirement': 'beh', 'prevention': 'beh', 'response': 'trig', 'existence': None}

PTRUE = ('ptrue',)


def ev(topic, alias=None, pred=PTRUE):
    return ('event', topic, alias, pred)


def disj(events, nesting='right'):
    events = list(events)
    if len(events) == 1:
        return events[0]
    if nesting == 'right':
        t = events[-1]
        for e in reversed(events[:-1]):
            t = ('evor', e, t)
        return t
    t = events[0]
    for e in events[1:]:
        t = ('evor', t, e)
    return t


def alternatives(e):
    if e is None:
        return []
    if e[0] == 'evor':
        return alternatives(e[1]) + alternatives(e[2])
    return [e]


def make_property(scope_kind, pattern_kind, act=None, term=None, trig=None, beh=None, max_t=INF, min_t=0.0):
    scope = ('scope', scope_kind, act if scope_kind in ('after', 'after_until') else None, term if scope_kind in ('until', 'after_until') else None)
    pat = ('pattern', pattern_kind, beh, trig if pattern_kind in TWO_EVENT else None, min_t, max_t)
    return ('property', scope, pat)


def positions(scope_kind, pattern_kind):
    """Event positions that exist for this skeleton, in source order."""
    pos = []
    if scope_kind in ('after', 'after_until'):
        pos.append('act')
    if scope_kind in ('until', 'after_until'):
        pos.append('term')
    if pattern_kind == 'requirement':
        pos += ['beh', 'trig']
    elif pattern_kind in TWO_EVENT:
        pos += ['trig', 'beh']
    else:
        pos.append('beh')
    return pos


def binding_chain(pattern_kind):
    """Documented binding order after the activator."""
    if pattern_kind == 'requirement':
        return ['beh', 'trig']
    if pattern_kind in TWO_EVENT:
        return ['trig', 'beh']
    return ['beh']


def get_event(p, pos):
    _, scope, pat = p
    return {'act': scope[2], 'term': scope[3], 'beh': pat[2], 'trig': pat[3]}[pos]


def with_event(p, pos, e):
    _, scope, pat = p
    if pos == 'act':
        scope = scope[:2] + (e,) + scope[3:]
    elif pos == 'term':
        scope = scope[:3] + (e,)
    elif pos == 'beh':
        pat = pat[:2] + (e,) + pat[3:]
    else:
        pat = pat[:3] + (e,) + pat[4:]
    return ('property', scope, pat)


TOPIC_PREFIX = {'act': 'a', 'term': 't', 'trig': 'g', 'beh': 'b'}


def width_skeletons(max_width=4):
    """scope kind x pattern kind x a width 1..max_width for each existing position."""
    for sk in SCOPES:
        for pk in PATTERNS:
            pos = positions(sk, pk)
            for widths in product(range(1, max_width + 1), repeat=len(pos)):
                yield sk, pk, dict(zip(pos, widths))


def field_gt(name, k):
    return ('pred', ('bin', '>', this_field(name), num(k)))


def alias_eq(alias, name='x'):
    return ('pred', ('bin', '=', this_field(name), alias_field(alias, name)))
