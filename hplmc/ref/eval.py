"""E3 - reference evaluator for abstract expression trees.

An erroring sub-term makes the evaluation undefined (raises Undef).
Reading-parametric (see DESIGN.md section 6):

  lazy     False: connectives are strict in both operands
           True : and / or / implies do not evaluate a right operand that
                  cannot change the result (so `len(d) = 0 or p` is defined
                  when d is empty even if p would fail)
  arith    'exact' (rationals)  |  'float' (python int/float, what constant
           folding inside the implementation computes)
  setmode  'set' (mathematical set)  |  'bag' (listed elements)

Environment: {'this': {field: value}, ('@', name): value-or-message-dict}.
Values: bool, number (Fraction / int / float), str, tuple (array), dict (message).
"""

from __future__ import annotations

import math
from fractions import Fraction

BIG = 10 ** 12


class Undef(Exception):
    """The term has no value under this valuation (error / non-finite / unspecified)."""


class EvalConfig:
    __slots__ = ('arith', 'setmode', 'lazy')

    def __init__(self, arith='exact', setmode='set', lazy=False):
        self.arith = arith
        self.setmode = setmode
        self.lazy = lazy  # and / or / implies evaluate their right operand only if the left one does not decide


EXACT_SET = EvalConfig('exact', 'set')
# the first reading is the strictest (fewest defined inputs); a mismatch counts only if it
# persists under every reading
READINGS = tuple(EvalConfig(a, s, lz) for lz in (False, True) for a in ('exact', 'float') for s in ('set', 'bag'))


def _num(v, cfg):
    """Normalise a python number to the arithmetic of the reading."""
    if isinstance(v, bool):
        raise Undef('bool used as number')
    if cfg.arith == 'exact':
        if isinstance(v, Fraction):
            return v
        if isinstance(v, int):
            return Fraction(v)
        if isinstance(v, float):
            if math.isnan(v) or math.isinf(v):
                raise Undef('non-finite')
            return Fraction(v)
        raise Undef(f'not a number: {v!r}')
    else:
        if isinstance(v, Fraction):
            return int(v) if v.denominator == 1 else float(v)
        if isinstance(v, float) and (math.isnan(v) or math.isinf(v)):
            raise Undef('non-finite')
        if isinstance(v, (int, float)):
            return v
        raise Undef(f'not a number: {v!r}')


def _lit(t, cfg):
    tok, v = t[1], t[2]
    if isinstance(v, bool):
        return v
    if isinstance(v, str):
        return v
    if isinstance(v, float) and (math.isnan(v) or math.isinf(v)):
        raise Undef('non-finite constant')
    if cfg.arith == 'exact':
        if isinstance(v, int):
            return Fraction(v)
        try:
            return Fraction(tok)  # decimal text is exact: '2.5', '1e3'
        except (ValueError, ZeroDivisionError):
            return Fraction(v)
    return v


def _is_int(x):
    if isinstance(x, Fraction):
        return x.denominator == 1
    if isinstance(x, int):
        return True
    if isinstance(x, float):
        return x.is_integer()
    return False


def _check(x):
    if isinstance(x, float):
        if math.isnan(x) or math.isinf(x):
            raise Undef('non-finite result')
    elif isinstance(x, complex):
        raise Undef('complex result')
    elif isinstance(x, (int, Fraction)) and abs(x) > BIG ** 3:
        raise Undef('magnitude outside the explored range')
    return x


def _pow(a, b, cfg):
    if cfg.arith == 'exact':
        if b.denominator == 1:
            e = int(b)
            if a == 0 and e < 0:
                raise Undef('0 ** negative')
            if abs(e) > 64:
                raise Undef('exponent outside the explored range')
            return _check(a ** e)
        if a < 0:
            raise Undef('complex power')
        if a == 0:
            if b < 0:
                raise Undef('0 ** negative')
            return Fraction(0)
        try:
            return _check(Fraction(float(a) ** float(b)))
        except (OverflowError, ValueError):
            raise Undef('power overflow')
    try:
        if isinstance(b, int) and abs(b) > 64 or isinstance(b, float) and abs(b) > 64:
            raise Undef('exponent outside the explored range')
        r = a ** b
    except ZeroDivisionError:
        raise Undef('0 ** negative')
    except OverflowError:
        raise Undef('power overflow')
    return _check(r)


def _elements(v, what, cfg):
    """Elements of a compound value for aggregates / quantifiers."""
    kind = v[0]
    if kind == 'array':
        return list(v[1])
    if kind == 'set':
        if cfg.setmode == 'bag':
            return list(v[1])
        out = []
        for e in v[1]:
            if not any(e == o for o in out):
                out.append(e)
        return out
    if kind == 'range':
        lo, hi, xlo, xhi = v[1:]
        if not (_is_int(lo) and _is_int(hi)):
            raise Undef('integer points of a range with non-integer bounds are not specified')
        a = int(lo) + (1 if xlo else 0)
        b = int(hi) - (1 if xhi else 0)
        if b - a > 2000:
            raise Undef('range outside the explored sizes')
        if cfg.arith == 'exact':
            return [Fraction(k) for k in range(a, b + 1)]
        return list(range(a, b + 1))
    raise Undef(f'not a compound value: {v!r}')


def _compound(x):
    return isinstance(x, tuple) and x and x[0] in ('array', 'set', 'range')


def ev(t, env, cfg=EXACT_SET, bound=None):
    tag = t[0]
    if tag == 'lit':
        return _lit(t, cfg)
    if tag == 'this':
        return env['this']
    if tag == 'var':
        if bound and t[1] in bound:
            return bound[t[1]]
        try:
            v = env[('@', t[1])]
        except KeyError:
            raise Undef(f'unbound @{t[1]}')
        return _wrap(v, cfg)
    if tag == 'field':
        m = ev(t[1], env, cfg, bound)
        if not isinstance(m, dict):
            raise Undef('field access on a non-message')
        try:
            return _wrap(m[t[2]], cfg)
        except KeyError:
            raise Undef(f'no field {t[2]}')
    if tag == 'index':
        a = ev(t[1], env, cfg, bound)
        i = ev(t[2], env, cfg, bound)
        if not (_compound(a) and a[0] == 'array'):
            raise Undef('index on a non-array')
        if not _is_int(i):
            raise Undef('non-integer index')
        i = int(i)
        if i < 0 or i >= len(a[1]):
            raise Undef('index out of range')
        return a[1][i]
    if tag == 'un':
        a = ev(t[2], env, cfg, bound)
        if t[1] == 'not':
            if not isinstance(a, bool):
                raise Undef('not on non-bool')
            return not a
        if isinstance(a, bool) or isinstance(a, (str, dict, tuple)):
            raise Undef('minus on non-number')
        return -a
    if tag == 'bin':
        op = t[1]
        a = ev(t[2], env, cfg, bound)
        if cfg.lazy and op in ('and', 'or', 'implies') and isinstance(a, bool):
            if op == 'and' and not a:
                return False
            if op == 'or' and a:
                return True
            if op == 'implies' and not a:
                return True
        b = ev(t[3], env, cfg, bound)
        if op in ('and', 'or', 'implies', 'iff'):
            if not (isinstance(a, bool) and isinstance(b, bool)):
                raise Undef('connective on non-bool')
            if op == 'and':
                return a and b
            if op == 'or':
                return a or b
            if op == 'implies':
                return (not a) or b
            return a == b
        if op == 'in':
            if not _compound(b):
                raise Undef('in: right operand is not compound')
            if b[0] == 'range':
                if isinstance(a, (bool, str)):
                    raise Undef('in range: non-number')
                lo, hi, xlo, xhi = b[1:]
                okl = a > lo if xlo else a >= lo
                okh = a < hi if xhi else a <= hi
                return okl and okh
            return any(_same_kind(a, e) and a == e for e in b[1])
        if op in ('=', '!='):
            if not _same_kind(a, b):
                raise Undef('comparison of different kinds')
            return (a == b) if op == '=' else (a != b)
        if isinstance(a, (bool, str, dict, tuple)) or isinstance(b, (bool, str, dict, tuple)):
            raise Undef('numeric operator on non-number')
        if op == '<':
            return a < b
        if op == '<=':
            return a <= b
        if op == '>':
            return a > b
        if op == '>=':
            return a >= b
        if op == '+':
            return _check(a + b)
        if op == '-':
            return _check(a - b)
        if op == '*':
            return _check(a * b)
        if op == '/':
            if b == 0:
                raise Undef('division by zero')
            return _check(a / b)
        if op == '**':
            return _pow(a, b, cfg)
        raise Undef(f'unknown operator {op}')
    if tag == 'quant':
        d = ev(t[3], env, cfg, bound)
        if not _compound(d):
            raise Undef('quantifier domain is not compound')
        elems = _elements(d, 'quant', cfg)
        res = []
        for e in elems:
            b2 = dict(bound or {})
            b2[t[2]] = e
            r = ev(t[4], env, cfg, b2)
            if not isinstance(r, bool):
                raise Undef('quantifier body not bool')
            res.append(r)  # strict: evaluate every point
        return all(res) if t[1] == 'forall' else any(res)
    if tag == 'set':
        return ('set', tuple(ev(e, env, cfg, bound) for e in t[1]))
    if tag == 'range':
        lo = ev(t[1], env, cfg, bound)
        hi = ev(t[2], env, cfg, bound)
        if isinstance(lo, (bool, str)) or isinstance(hi, (bool, str)):
            raise Undef('range bound not a number')
        return ('range', lo, hi, bool(t[3]), bool(t[4]))
    if tag == 'call':
        return _call(t[1], [ev(a, env, cfg, bound) for a in t[2]], cfg)
    if tag == 'pred':
        return ev(t[1], env, cfg, bound)
    if tag == 'ptrue':
        return True
    if tag == 'pfalse':
        return False
    raise Undef(f'cannot evaluate {tag}')


def _wrap(v, cfg):
    """Grid values -> evaluator values."""
    if isinstance(v, bool) or isinstance(v, (str, dict)):
        return v
    if isinstance(v, tuple):
        if v and v[0] in ('array', 'set', 'range'):
            return v
        return ('array', tuple(_wrap(e, cfg) for e in v))
    if isinstance(v, list):
        return ('array', tuple(_wrap(e, cfg) for e in v))
    return _num(v, cfg)


def _same_kind(a, b):
    def k(x):
        if isinstance(x, bool):
            return 'b'
        if isinstance(x, str):
            return 's'
        if isinstance(x, (int, float, Fraction)):
            return 'n'
        return 'o'

    return k(a) == k(b) and k(a) != 'o'


def _fl(x):
    if isinstance(x, (bool, str, dict, tuple)):
        raise Undef('not a number')
    return float(x)


def _ret(x, cfg):
    _check(x)
    if cfg.arith == 'exact' and not isinstance(x, Fraction):
        return Fraction(x)
    return x


def _call(f, args, cfg):
    if len(args) != 1:
        # declared multi-argument overloads (only reachable through the API or rewriting)
        nums = all(isinstance(a, (int, float, Fraction)) and not isinstance(a, bool) for a in args)
        if f in ('max', 'min', 'gcd') and len(args) >= 2 and nums:
            if f == 'max':
                return max(args)
            if f == 'min':
                return min(args)
            if not all(_is_int(e) for e in args):
                raise Undef('gcd of non-integers')
            g = 0
            for e in args:
                g = math.gcd(g, int(e))
            return _ret(g, cfg)
        raise Undef('call shape outside the specified signatures')
    a = args[0]
    isnum = isinstance(a, (int, float, Fraction)) and not isinstance(a, bool)
    try:
        if f == 'abs':
            if not isnum:
                raise Undef('abs of non-number')
            return abs(a)
        if f in ('len', 'sum', 'prod', 'max', 'min', 'gcd'):
            if not _compound(a):
                raise Undef(f'{f} of a non-compound value')
            if a[0] == 'range' and f in ('len', 'sum', 'max', 'min') and _is_int(a[1]) and _is_int(a[2]):
                # closed forms over the integer points of a range: defined whatever the size of the range
                lo_ = int(a[1]) + (1 if a[3] else 0)
                hi_ = int(a[2]) - (1 if a[4] else 0)
                n_ = max(0, hi_ - lo_ + 1)
                if f == 'len':
                    return _ret(n_, cfg)
                if f == 'sum':
                    return _ret((lo_ + hi_) * n_ // 2, cfg)
                if n_ == 0:
                    raise Undef(f'{f} of nothing')
                return _ret(hi_ if f == 'max' else lo_, cfg)
            elems = _elements(a, f, cfg)
            if f == 'len':
                return _ret(len(elems), cfg)
            if any(isinstance(e, (bool, str, dict, tuple)) for e in elems):
                raise Undef(f'{f} over non-numbers')
            if f == 'sum':
                return _ret(sum(elems, Fraction(0) if cfg.arith == 'exact' else 0), cfg)
            if f == 'prod':
                r = Fraction(1) if cfg.arith == 'exact' else 1
                for e in elems:
                    r = r * e
                return _ret(r, cfg)
            if not elems:
                raise Undef(f'{f} of nothing')
            if f == 'max':
                return max(elems)
            if f == 'min':
                return min(elems)
            if not all(_is_int(e) for e in elems):
                raise Undef('gcd of non-integers')
            g = 0
            for e in elems:
                g = math.gcd(g, int(e))
            return _ret(g, cfg)
        if f == 'bool':
            if isinstance(a, bool):
                return a
            if isnum:
                return a != 0
            raise Undef('bool() of a string is not specified')
        if f == 'int':
            if isinstance(a, bool):
                return _ret(int(a), cfg)
            if isnum:
                return _ret(math.trunc(a), cfg)
            raise Undef('int() of a string is not specified')
        if f == 'float':
            if isinstance(a, bool):
                return _ret(int(a), cfg)
            if isnum:
                return a if cfg.arith == 'exact' else float(a)
            raise Undef('float() of a string is not specified')
        if f == 'str':
            raise Undef('str() is not specified')
        if not isnum:
            raise Undef(f'{f} of non-number')
        if f == 'sqrt':
            if a < 0:
                raise Undef('sqrt of negative')
            return _ret(math.sqrt(a), cfg)
        if f == 'ceil':
            return _ret(math.ceil(a), cfg)
        if f == 'floor':
            return _ret(math.floor(a), cfg)
        fn = {
            'sin': math.sin, 'cos': math.cos, 'tan': math.tan, 'asin': math.asin, 'acos': math.acos,
            'atan': math.atan, 'deg': math.degrees, 'rad': math.radians,
        }.get(f)
        if fn is None:
            raise Undef(f'function {f} is not specified')
        return _ret(fn(_fl(a)), cfg)
    except (ValueError, OverflowError, ZeroDivisionError):
        raise Undef(f'{f} undefined here')


def value(t, env, cfg=EXACT_SET):
    """('ok', value) or ('undef', reason)."""
    try:
        return ('ok', ev(t, env, cfg))
    except Undef as e:
        return ('undef', str(e))
    except RecursionError:
        return ('undef', 'recursion')


def same(a, b, tol=1e-9):
    """Equality of two evaluator values with a relative tolerance on numbers."""
    if isinstance(a, bool) or isinstance(b, bool):
        return isinstance(a, bool) and isinstance(b, bool) and a == b
    if isinstance(a, str) or isinstance(b, str):
        return isinstance(a, str) and isinstance(b, str) and a == b
    if isinstance(a, (int, float, Fraction)) and isinstance(b, (int, float, Fraction)):
        if a == b:
            return True
        fa, fb = float(a), float(b)
        return abs(fa - fb) <= tol * max(1.0, abs(fa), abs(fb))
    if isinstance(a, tuple) and isinstance(b, tuple):
        if len(a) != len(b):
            return False
        return all(same(x, y, tol) if not isinstance(x, str) or x not in ('array', 'set', 'range') else x == y for x, y in zip(a, b))
    return a == b


def constant_undefined(t):
    """May simplify raise on t?  True iff t contains a closed (reference-free)
    sub-term that is undefined under every reading (1 / 0, sqrt(-1), 0 ** -1), or a
    division whose divisor is identically zero: it evaluates to 0 on every
    valuation of the grid on which it is defined (x - x, x * 0, 0 * y)."""
    from hplmc.universe import slots, valuations, NAME_SORT

    def free_bound_var(u):
        # a sub-term below a quantifier that mentions its variable is not standalone
        return any(s[0] == '@' and s[1] in ('i', 'j', 'k') for s in slots(u))

    for u in _subexprs(t):
        if u[0] in ('lit', 'set', 'range', 'this', 'var', 'field'):
            continue
        if free_bound_var(u):
            continue
        if not slots(u) and u[0] != 'quant':
            if all(value(u, {'this': {}}, c)[0] == 'undef' for c in READINGS):
                return True
        if u[0] == 'bin' and u[1] == '/':
            d = u[3]
            if free_bound_var(d):
                continue
            sl = slots(d)
            try:
                envs = list(valuations(sl, sort_of=lambda s: NAME_SORT[s[1]]))
            except KeyError:
                continue
            seen_defined = False
            zero = True
            for env in envs:
                for c in READINGS:
                    v = value(d, env, c)
                    if v[0] == 'ok':
                        seen_defined = True
                        if v[1] != 0:
                            zero = False
                            break
                if not zero:
                    break
            if zero and seen_defined:
                return True
    return False


def _subexprs(t):
    yield t
    for x in t[1:]:
        if isinstance(x, tuple):
            if x and isinstance(x[0], str):
                yield from _subexprs(x)
            else:
                for y in x:
                    if isinstance(y, tuple):
                        yield from _subexprs(y)
