"""E3 - reference parser for HPL: hand-written recursive descent over a
maximal-munch lexer.  Independent of lark and of hpl.parser.

Lexical rules (from tokens.lark + lark's common terminals): words are
[A-Za-z_][A-Za-z0-9_]* by longest match; a word is a keyword only where the
grammar asks for that keyword.  Numbers: INT | DECIMAL [EXP] | INT EXP.
Strings: "..." with backslash escapes, no newline.  Punctuation by longest
match: ** != <= >= ![ ]! and single characters.

Produces the same abstract trees as hplmc.absyn.lift.  Raises RefSyntaxError
for ill-formed text.  `notes` collects facts the checks use to skip texts
outside the specified language (an identifier equal to a keyword).
"""

from __future__ import annotations

import re

from hplmc.absyn import CONSTANTS

INF = float('inf')


class RefSyntaxError(Exception):
    pass


KEYWORDS = frozenset(
    'not implies iff or and forall exists in to as within no some requires causes forbids after until globally '
    'True False PI INF NAN E s ms id title description hz'.split()
)

_WS = re.compile(r'[ \t\f\r\n]+')
_WORD = re.compile(r'[A-Za-z_][A-Za-z0-9_]*')
_NUM = re.compile(r'(?:[0-9]+\.[0-9]*|\.[0-9]+)(?:[eE][+-]?[0-9]+)?|[0-9]+(?:[eE][+-]?[0-9]+)?')
_STR = re.compile(r'".*?(?<!\\)(\\\\)*?"')
_OPS = ('**', '!=', '<=', '>=', '![', ']!', '*', '/', '+', '-', '=', '<', '>', '[', ']', '{', '}', '(', ')', ',', ':', '.', '#', '~')


def lex(text):
    """-> list of (kind, text, start, end); kinds: word var num str op."""
    toks = []
    i, n = 0, len(text)
    while i < n:
        m = _WS.match(text, i)
        if m:
            i = m.end()
            continue
        c = text[i]
        m = _WORD.match(text, i)
        if m:
            toks.append(('word', m.group(), i, m.end()))
            i = m.end()
            continue
        if c == '@':
            m = _WORD.match(text, i + 1)
            if not m:
                raise RefSyntaxError(f'lone @ at {i}')
            toks.append(('var', m.group(), i, m.end()))
            i = m.end()
            continue
        m = _NUM.match(text, i)
        if m:
            toks.append(('num', m.group(), i, m.end()))
            i = m.end()
            continue
        if c == '"':
            m = _STR.match(text, i)
            if not m:
                raise RefSyntaxError(f'unterminated string at {i}')
            toks.append(('str', m.group(), i, m.end()))
            i = m.end()
            continue
        for op in _OPS:
            if text.startswith(op, i):
                toks.append(('op', op, i, i + len(op)))
                i += len(op)
                break
        else:
            raise RefSyntaxError(f'illegal character {c!r} at {i}')
    return toks


CMP_OPS = ('=', '!=', '<', '<=', '>', '>=')


class Parser:
    def __init__(self, text):
        self.text = text
        self.toks = lex(text)
        self.i = 0
        self.notes = set()

    # -- token helpers ---------------------------------------------------
    def peek(self, k=0):
        j = self.i + k
        return self.toks[j] if j < len(self.toks) else ('eof', '', len(self.text), len(self.text))

    def at_op(self, *ops):
        t = self.peek()
        return t[0] == 'op' and t[1] in ops

    def at_word(self, *words):
        t = self.peek()
        return t[0] == 'word' and t[1] in words

    def take(self):
        t = self.peek()
        if t[0] == 'eof':
            raise RefSyntaxError('unexpected end of input')
        self.i += 1
        return t

    def expect_op(self, op):
        if not self.at_op(op):
            raise RefSyntaxError(f'expected {op!r}, got {self.peek()[1]!r} at {self.peek()[2]}')
        return self.take()

    def expect_word(self, w):
        if not self.at_word(w):
            raise RefSyntaxError(f'expected keyword {w!r}, got {self.peek()[1]!r} at {self.peek()[2]}')
        return self.take()

    def name(self, what):
        """An identifier (CNAME).  A keyword-named identifier is noted."""
        t = self.peek()
        if t[0] != 'word':
            raise RefSyntaxError(f'expected {what}, got {t[1]!r} at {t[2]}')
        if t[1] in KEYWORDS:
            self.notes.add('keyword-named identifier')
        self.i += 1
        return t[1]

    def eof(self):
        if self.peek()[0] != 'eof':
            raise RefSyntaxError(f'trailing input {self.peek()[1]!r} at {self.peek()[2]}')

    # -- files and properties --------------------------------------------
    def hpl_file(self):
        props = [self.hpl_property()]
        while self.peek()[0] != 'eof':
            props.append(self.hpl_property())
        return ('spec', tuple(p for p, _m in props)), [m for _p, m in props]

    def hpl_property(self):
        meta = {}
        while self.at_op('#'):
            self.take()
            t = self.peek()
            if t[0] != 'word' or t[1] not in ('id', 'title', 'description'):
                raise RefSyntaxError(f'unknown metadata key {t[1]!r}')
            key = self.take()[1]
            self.expect_op(':')
            if key == 'id':
                val = self.name('property id')
            else:
                t = self.peek()
                if t[0] != 'str':
                    raise RefSyntaxError('expected a string')
                val = self.take()[1]
            if key in meta:
                raise RefSyntaxError(f'duplicate metadata key {key}')
            meta[key] = val
        scope = self.scope()
        self.expect_op(':')
        pattern = self.pattern()
        return ('property', scope, pattern), meta

    def scope(self):
        if self.at_word('globally'):
            self.take()
            return ('scope', 'globally', None, None)
        if self.at_word('after'):
            self.take()
            p = self.any_event()
            if self.at_word('until'):
                self.take()
                q = self.any_event()
                return ('scope', 'after_until', p, q)
            return ('scope', 'after', p, None)
        if self.at_word('until'):
            self.take()
            return ('scope', 'until', None, self.any_event())
        raise RefSyntaxError(f'expected a scope, got {self.peek()[1]!r}')

    def pattern(self):
        if self.at_word('some'):
            self.take()
            b = self.any_event()
            return ('pattern', 'existence', b, None, 0.0, self.time_bound())
        if self.at_word('no'):
            self.take()
            b = self.any_event()
            return ('pattern', 'absence', b, None, 0.0, self.time_bound())
        first = self.any_event()
        if self.at_word('causes'):
            self.take()
            second = self.any_event()
            return ('pattern', 'response', second, first, 0.0, self.time_bound())
        if self.at_word('forbids'):
            self.take()
            second = self.any_event()
            return ('pattern', 'prevention', second, first, 0.0, self.time_bound())
        if self.at_word('requires'):
            self.take()
            second = self.any_event()
            return ('pattern', 'requirement', first, second, 0.0, self.time_bound())
        raise RefSyntaxError(f'expected causes/forbids/requires, got {self.peek()[1]!r}')

    def time_bound(self):
        if not self.at_word('within'):
            return INF
        self.take()
        t = self.peek()
        if t[0] != 'num':
            raise RefSyntaxError('expected a number after within')
        self.take()
        u = self.peek()
        if u[0] != 'word' or u[1] not in ('s', 'ms'):
            raise RefSyntaxError('expected a time unit')
        self.take()
        n = float(t[1])
        return n / 1000.0 if u[1] == 'ms' else n

    def any_event(self):
        if self.at_op('('):
            self.take()
            events = [self.event()]
            if not self.at_word('or'):
                raise RefSyntaxError('a parenthesised event must be a disjunction')
            while self.at_word('or'):
                self.take()
                events.append(self.event())
            self.expect_op(')')
            t = events[-1]
            for e in reversed(events[:-1]):
                t = ('evor', e, t)
            return t
        return self.event()

    def channel(self):
        """CHANNEL_NAME: [/~]? letter-word (/ letter-word)* with no whitespace inside."""
        start = self.peek()
        parts = []
        pos = start[2]
        if start[0] == 'op' and start[1] in ('/', '~'):
            self.take()
            parts.append(start[1])
            pos = start[3]
            nxt = self.peek()
            if nxt[0] != 'word' or nxt[2] != pos:
                raise RefSyntaxError('bad channel name')
        t = self.peek()
        if t[0] != 'word' or not t[1][0].isalpha():
            raise RefSyntaxError(f'expected a channel name, got {t[1]!r} at {t[2]}')
        self.take()
        parts.append(t[1])
        pos = t[3]
        while True:
            a, b = self.peek(), self.peek(1)
            if a[0] == 'op' and a[1] == '/' and a[2] == pos and b[0] == 'word' and b[2] == a[3] and b[1][0].isalpha():
                self.take()
                self.take()
                parts += ['/', b[1]]
                pos = b[3]
            else:
                break
        name = ''.join(parts)
        if name in KEYWORDS:
            self.notes.add('keyword-named identifier')
        return name

    def event(self):
        name = self.channel()
        alias = None
        if self.at_word('as'):
            self.take()
            alias = self.name('alias')
        pred = ('ptrue',)
        if self.at_op('{'):
            pred = self.predicate()
        return ('event', name, alias, pred)

    def predicate(self):
        self.expect_op('{')
        c = self.condition()
        self.expect_op('}')
        if c == ('lit', 'True', True):
            return ('ptrue',)
        if c == ('lit', 'False', False):
            return ('pfalse',)
        return ('pred', c)

    # -- expressions -------------------------------------------------------
    def condition(self):
        left = self.disjunction()
        while self.at_word('implies', 'iff'):
            op = self.take()[1]
            right = self.disjunction()
            left = ('bin', op, left, right)
        return left

    def disjunction(self):
        left = self.conjunction()
        while self.at_word('or'):
            self.take()
            right = self.conjunction()
            left = ('bin', 'or', left, right)
        return left

    def conjunction(self):
        left = self.logic_expr()
        while self.at_word('and'):
            self.take()
            right = self.logic_expr()
            left = ('bin', 'and', left, right)
        return left

    def logic_expr(self):
        if self.at_word('not'):
            self.take()
            return ('un', 'not', self.logic_expr())
        if self.at_word('forall', 'exists'):
            q = self.take()[1]
            var = self.name('variable')
            self.expect_word('in')
            dom = self.atomic_value()
            self.expect_op(':')
            body = self.logic_expr()
            return ('quant', q, var, dom, body)
        return self.atomic_condition()

    def atomic_condition(self):
        left = self.expr()
        t = self.peek()
        if (t[0] == 'op' and t[1] in CMP_OPS) or (t[0] == 'word' and t[1] == 'in'):
            self.take()
            right = self.expr()
            return ('bin', t[1], left, right)
        return left

    def expr(self):
        left = self.term()
        while self.at_op('+', '-'):
            op = self.take()[1]
            right = self.term()
            left = ('bin', op, left, right)
        return left

    def term(self):
        left = self.factor()
        while self.at_op('*', '/'):
            op = self.take()[1]
            right = self.factor()
            left = ('bin', op, left, right)
        return left

    def factor(self):
        left = self.exponent()
        while self.at_op('**'):
            self.take()
            right = self.exponent()
            left = ('bin', '**', left, right)
        return left

    def exponent(self):
        if self.at_op('-'):
            self.take()
            return ('un', '-', self.exponent())
        if self.at_op('('):
            self.take()
            c = self.condition()
            self.expect_op(')')
            return c
        return self.atomic_value()

    def atomic_value(self):
        t = self.peek()
        if t[0] == 'num':
            self.take()
            try:
                return ('lit', t[1], int(t[1]))
            except ValueError:
                return ('lit', t[1], float(t[1]))
        if t[0] == 'str':
            self.take()
            return ('lit', t[1], t[1])
        if t[0] == 'op' and t[1] == '{':
            self.take()
            elems = [self.expr()]
            while self.at_op(','):
                self.take()
                elems.append(self.expr())
            self.expect_op('}')
            return ('set', tuple(elems))
        if t[0] == 'op' and t[1] in ('[', '!['):
            self.take()
            lo = self.expr()
            self.expect_word('to')
            hi = self.expr()
            c = self.peek()
            if not (c[0] == 'op' and c[1] in (']', ']!')):
                raise RefSyntaxError(f'expected ] or ]!, got {c[1]!r}')
            self.take()
            return ('range', lo, hi, t[1] == '![', c[1] == ']!')
        if t[0] == 'var':
            self.take()
            if t[1] in KEYWORDS:
                self.notes.add('keyword-named identifier')
            return self.accessors(('var', t[1]))
        if t[0] == 'word':
            w = t[1]
            if w in ('True', 'False'):
                self.take()
                return ('lit', w, w == 'True')
            if w in CONSTANTS:
                self.take()
                return ('lit', w, CONSTANTS[w])
            nxt = self.peek(1)
            if nxt[0] == 'op' and nxt[1] == '(':
                self.name('function name')
                self.take()
                arg = self.expr()
                self.expect_op(')')
                return ('call', w, (arg,))
            self.name('field name')
            return self.accessors(('field', ('this',), w))
        raise RefSyntaxError(f'expected a value, got {t[1]!r} at {t[2]}')

    def accessors(self, base):
        while True:
            if self.at_op('.'):
                self.take()
                f = self.name('field name')
                base = ('field', base, f)
            elif self.at_op('['):
                self.take()
                idx = self.expr()
                self.expect_op(']')
                base = ('index', base, idx)
            else:
                return base


def parse(kind, text):
    """-> (tree, info) ; info = {'notes': set, 'meta': ...}.  Raises RefSyntaxError."""
    p = Parser(text)
    info = {'notes': p.notes}
    if kind == 'expr' or kind == 'cond':
        t = p.condition()
        p.eof()
        if kind == 'cond':
            if t == ('lit', 'True', True):
                t = ('ptrue',)
            elif t == ('lit', 'False', False):
                t = ('pfalse',)
            else:
                t = ('pred', t)
    elif kind == 'pred':
        t = p.predicate()
        p.eof()
    elif kind == 'prop':
        t, meta = p.hpl_property()
        p.eof()
        info['meta'] = meta
    elif kind == 'spec':
        t, metas = p.hpl_file()
        info['meta'] = metas
    else:
        raise ValueError(kind)
    return t, info


def accepts(kind, text):
    try:
        parse(kind, text)
        return True
    except RefSyntaxError:
        return False
    except RecursionError:
        return None
