"""E3 - reference trace semantics of HPL scopes and patterns (finite timed traces).

A trace is a list of messages (time, topic, v) - v is the value of the one payload field `v` -, times non-decreasing,
plus an end time >= the last message.  Readings:

  reentrant   False: an after-until scope is entered once (first activator);
              True : after the terminator a later activator opens a new scope
                     instance with fresh alias bindings.

Fixed choices (documented in DESIGN.md): the activating / terminating messages
are not themselves observed by the pattern; an unbounded liveness obligation
that is still open at the end of the trace (or when the terminator arrives) is
violated; a time-bounded one is violated only once its deadline has passed or the
scope was terminated.
"""

from __future__ import annotations

from hplmc.props import alternatives
from hplmc.ref import eval as E

INF = float('inf')


class Sem:
    def __init__(self, reentrant=False):
        self.reentrant = reentrant
        self._memo = {}

    # -- events ----------------------------------------------------------
    def match(self, event, msg, env):
        """Alias bindings if msg matches the (possibly disjunctive) event, else None."""
        t, topic, payload = msg
        for alt in alternatives(event):
            if alt[1] != topic:
                continue
            pred = alt[3]
            if pred[0] == 'ptrue':
                ok = True
            elif pred[0] == 'pfalse':
                ok = False
            else:
                # payload is the value of the single field v; env maps alias -> v
                key = (id(pred), payload, tuple(sorted(env.items())) if env else ())
                ok = self._memo.get(key)
                if ok is None:
                    e = {'this': {'v': payload}}
                    for name, val in env.items():
                        e[('@', name)] = {'v': val}
                    v = E.value(pred[1], e)
                    ok = v[0] == 'ok' and v[1] is True
                    self._memo[key] = ok
            if ok:
                return {alt[2]: payload} if alt[2] else {}
            return None
        return None

    # -- scopes ----------------------------------------------------------
    def instances(self, scope, trace, end):
        """(start_time, first_index, stop_index, close_time, terminated, env)"""
        kind = scope[1]
        n = len(trace)
        if kind == 'globally':
            yield (0.0, 0, n, end, False, {})
            return
        if kind == 'until':
            for j in range(n):
                if self.match(scope[3], trace[j], {}) is not None:
                    yield (0.0, 0, j, trace[j][0], True, {})
                    return
            yield (0.0, 0, n, end, False, {})
            return
        pos = 0
        while pos < n:
            i = None
            for k in range(pos, n):
                b = self.match(scope[2], trace[k], {})
                if b is not None:
                    i, env = k, b
                    break
            if i is None:
                return
            if kind == 'after':
                yield (trace[i][0], i + 1, n, end, False, env)
                return
            j = None
            for k in range(i + 1, n):
                if self.match(scope[3], trace[k], env) is not None:
                    j = k
                    break
            if j is None:
                yield (trace[i][0], i + 1, n, end, False, env)
                return
            yield (trace[i][0], i + 1, j, trace[j][0], True, env)
            if not self.reentrant:
                return
            pos = j + 1

    # -- patterns --------------------------------------------------------
    def _open_obligation_violated(self, deadline, close, terminated):
        if terminated:
            return True
        if deadline == INF:
            return True
        return close > deadline

    def pattern_holds(self, pat, trace, inst):
        t0, lo, hi, close, terminated, env = inst
        kind, beh, trig, min_t, max_t = pat[1:]
        # a lower bound (no syntax; API only) is read as the start of the time window: [t + min_t, t + max_t]
        if kind == 'absence':
            for k in range(lo, hi):
                if t0 + min_t <= trace[k][0] <= t0 + max_t and self.match(beh, trace[k], env) is not None:
                    return False
            return True
        if kind == 'existence':
            for k in range(lo, hi):
                if t0 + min_t <= trace[k][0] <= t0 + max_t and self.match(beh, trace[k], env) is not None:
                    return True
            return not self._open_obligation_violated(t0 + max_t, close, terminated)
        if kind == 'response':
            for k in range(lo, hi):
                b = self.match(trig, trace[k], env)
                if b is None:
                    continue
                env2 = dict(env)
                env2.update(b)
                ta = trace[k][0]
                found = False
                for m in range(k + 1, hi):
                    if ta + min_t <= trace[m][0] <= ta + max_t and self.match(beh, trace[m], env2) is not None:
                        found = True
                        break
                if not found and self._open_obligation_violated(ta + max_t, close, terminated):
                    return False
            return True
        if kind == 'prevention':
            for k in range(lo, hi):
                b = self.match(trig, trace[k], env)
                if b is None:
                    continue
                env2 = dict(env)
                env2.update(b)
                ta = trace[k][0]
                for m in range(k + 1, hi):
                    if ta + min_t <= trace[m][0] <= ta + max_t and self.match(beh, trace[m], env2) is not None:
                        return False
            return True
        if kind == 'requirement':
            for k in range(lo, hi):
                b = self.match(beh, trace[k], env)
                if b is None:
                    continue
                env2 = dict(env)
                env2.update(b)
                tb = trace[k][0]
                found = False
                for m in range(lo, k):
                    if tb - max_t <= trace[m][0] <= tb - min_t and self.match(trig, trace[m], env2) is not None:
                        found = True
                        break
                if not found:
                    return False
            return True
        raise ValueError(kind)

    def holds(self, prop, trace, end):
        _, scope, pat = prop
        for inst in self.instances(scope, trace, end):
            if not self.pattern_holds(pat, trace, inst):
                return False
        return True
