"""E3 - reference type system: documented signatures (hard-coded, never read
from hpl), the per-node well-typedness invariant on typed lifts (C03), and the
definite-clash analysis on abstract trees (C05).

Type sets are frozensets of base-type names.
"""

from __future__ import annotations

NAMES = ('BOOL', 'NUMBER', 'STRING', 'ARRAY', 'RANGE', 'SET', 'MESSAGE')
B = frozenset(['BOOL'])
N = frozenset(['NUMBER'])
S = frozenset(['STRING'])
ARR = frozenset(['ARRAY'])
RNG = frozenset(['RANGE'])
SET = frozenset(['SET'])
MSG = frozenset(['MESSAGE'])
PRIMITIVE = B | N | S
ITEM = PRIMITIVE | MSG
COMPOUND = ARR | RNG | SET
ANY = frozenset(NAMES)
ACCESS = ITEM | ARR

ARITH = ('+', '-', '*', '/', '**')
CONN = ('and', 'or', 'implies', 'iff')
ORDER = ('<', '<=', '>', '>=')

UNARY = {'-': (N, N), 'not': (B, B)}
BINARY = {}
for _op in ARITH:
    BINARY[_op] = (N, N, N)
for _op in CONN:
    BINARY[_op] = (B, B, B)
for _op in ORDER:
    BINARY[_op] = (N, N, B)
BINARY['='] = (PRIMITIVE, PRIMITIVE, B)
BINARY['!='] = (PRIMITIVE, PRIMITIVE, B)
BINARY['in'] = (PRIMITIVE, COMPOUND, B)

# name -> list of overloads ((param types...), variadic type or None, result)
FUNCTIONS = {
    'abs': [((N,), None, N)],
    'bool': [((PRIMITIVE,), None, B)],
    'int': [((PRIMITIVE,), None, N)],
    'float': [((PRIMITIVE,), None, N)],
    'str': [((PRIMITIVE,), None, S)],
    'len': [((COMPOUND,), None, N)],
    'sum': [((COMPOUND,), None, N)],
    'prod': [((COMPOUND,), None, N)],
    'log': [((N, N), None, N)],
    'atan2': [((N, N), None, N)],
}
for _f in ('sqrt', 'ceil', 'floor', 'sin', 'cos', 'tan', 'asin', 'acos', 'atan', 'deg', 'rad'):
    FUNCTIONS[_f] = [((N,), None, N)]
for _f in ('max', 'min', 'gcd'):
    FUNCTIONS[_f] = [((COMPOUND,), None, N), ((N, N), N, N)]
for _f in ('roll', 'pitch', 'yaw'):
    FUNCTIONS[_f] = [((MSG,), None, N), ((N, N, N, N), None, N)]


def function_result(name):
    r = frozenset()
    for _p, _v, res in FUNCTIONS[name]:
        r |= res
    return r


_bit_table = None


def names_of(bits):
    """Implementation data_type value (int) -> frozenset of base-type names."""
    global _bit_table
    if _bit_table is None:
        from hpl.types import DataType

        _bit_table = {n: int(getattr(DataType, n).value) for n in NAMES}
    return frozenset(n for n, b in _bit_table.items() if bits & b)


def lit_kind(value):
    if isinstance(value, bool):
        return B
    if isinstance(value, str):
        return S
    return N


# ---------------------------------------------------------------------------
# C03 invariant on typed lifts  ('t', bits, node)
# ---------------------------------------------------------------------------


def _ty(tn):
    return names_of(tn[1])


def _node(tn):
    return tn[2]


def _fmt(s):
    return '{' + ','.join(sorted(s)) + '}'


def wellformed(tn, problems=None, bound=None, where='root'):
    """Per-node invariant; returns list of (kind, detail)."""
    if problems is None:
        problems = []
    bound = bound or {}
    if tn[0] != 't':
        problems.append(('untyped expression node', f'{where}: {tn[0]}'))
        return problems
    ty = _ty(tn)
    node = _node(tn)
    tag = node[0]

    def bad(kind, detail):
        problems.append((kind, f'{where}/{tag}: {detail}'))

    def inside(child, param, what):
        ct = _ty(child)
        if not ct:
            return
        if not ct <= param:
            bad(f'operand type set not inside the parameter type ({what})', f'{_fmt(ct)} not within {_fmt(param)}')

    if not ty:
        bad('empty type set', 'no possible type')
    if tag == 'lit':
        if ty != lit_kind(node[2]):
            bad('literal does not carry exactly its kind', f'{node[1]}: {_fmt(ty)}')
    elif tag == 'this':
        if ty != MSG:
            bad('this-message is not MESSAGE', _fmt(ty))
    elif tag == 'var':
        if not ty <= ITEM:
            bad('variable type outside its kind', _fmt(ty))
        if node[1] in bound:
            if not (ty & bound[node[1]]):
                bad('bound variable used at a type disjoint from the element type of its domain', f'@{node[1]}: {_fmt(ty)} vs {_fmt(bound[node[1]])}')
    elif tag == 'field':
        if not ty <= ACCESS:
            bad('accessor type outside its kind', _fmt(ty))
        wellformed(node[1], problems, bound, where + '.msg')
        inside(node[1], MSG, 'accessed object')
    elif tag == 'index':
        if not ty <= ACCESS:
            bad('accessor type outside its kind', _fmt(ty))
        wellformed(node[1], problems, bound, where + '.arr')
        wellformed(node[2], problems, bound, where + '.idx')
        inside(node[1], ARR, 'indexed object')
        inside(node[2], N, 'index')
    elif tag == 'un':
        p, res = UNARY.get(node[1], (ANY, ANY))
        if ty != res:
            bad('operator result type is not the declared one', f'{node[1]}: {_fmt(ty)}')
        wellformed(node[2], problems, bound, where + '.a')
        inside(node[2], p, f'operand of {node[1]}')
    elif tag == 'bin':
        p1, p2, res = BINARY.get(node[1], (ANY, ANY, ANY))
        if ty != res:
            bad('operator result type is not the declared one', f'{node[1]}: {_fmt(ty)}')
        wellformed(node[2], problems, bound, where + '.a')
        wellformed(node[3], problems, bound, where + '.b')
        inside(node[2], p1, f'left operand of {node[1]}')
        inside(node[3], p2, f'right operand of {node[1]}')
        if node[1] in ('=', '!=') and _ty(node[2]) != _ty(node[3]):
            bad('the two sides of =/!= carry different type sets', f'{_fmt(_ty(node[2]))} vs {_fmt(_ty(node[3]))}')
    elif tag == 'quant':
        if ty != B:
            bad('quantifier is not BOOL', _fmt(ty))
        wellformed(node[3], problems, bound, where + '.dom')
        inside(node[3], COMPOUND, 'quantifier domain')
        dom = _node(node[3])
        if dom[0] == 'set':
            elem = frozenset().union(*[_ty(e) for e in dom[1]]) if dom[1] else PRIMITIVE
        elif dom[0] == 'range':
            elem = N
        else:
            elem = PRIMITIVE
        b2 = dict(bound)
        b2[node[2]] = elem
        wellformed(node[4], problems, b2, where + '.body')
        inside(node[4], B, 'quantifier body')
    elif tag == 'set':
        if ty != SET:
            bad('set literal is not SET', _fmt(ty))
        for i, e in enumerate(node[1]):
            wellformed(e, problems, bound, f'{where}.elem{i}')
            inside(e, PRIMITIVE, 'set element')
    elif tag == 'range':
        if ty != RNG:
            bad('range literal is not RANGE', _fmt(ty))
        wellformed(node[1], problems, bound, where + '.lo')
        wellformed(node[2], problems, bound, where + '.hi')
        inside(node[1], N, 'range bound')
        inside(node[2], N, 'range bound')
    elif tag == 'call':
        sigs = FUNCTIONS.get(node[1])
        if sigs is None:
            bad('unknown function in an AST', node[1])
        else:
            if ty != function_result(node[1]):
                bad('function result type is not the declared one', f'{node[1]}: {_fmt(ty)}')
            args = node[2]
            for i, a in enumerate(args):
                wellformed(a, problems, bound, f'{where}.arg{i}')
            ok = False
            for params, variadic, _res in sigs:
                if len(args) < len(params) or (len(args) > len(params) and variadic is None):
                    continue
                plist = list(params) + [variadic] * (len(args) - len(params))
                if all((not _ty(a)) or _ty(a) <= p for a, p in zip(args, plist)):
                    ok = True
                    break
            if not ok:
                bad('function argument type set not inside the parameter type of any overload', f'{node[1]}({", ".join(_fmt(_ty(a)) for a in args)})')
    else:
        bad('unknown node kind', tag)
    return problems


def _refs(tn, out, path_of, scope=()):
    """Collect (reference identity, type set) of every reference occurrence.  A reference is identified by
    its access path plus, for paths rooted in a quantified variable, the binder: equally named variables of
    sibling quantifiers are different references (the domain of a quantifier is outside its scope)."""
    node = _node(tn)
    tag = node[0]
    if tag in ('field', 'index', 'var'):
        base = node
        while base[0] in ('field', 'index'):
            base = _node(base[1])
        binder = None
        if base[0] == 'var':
            for name, ident in reversed(scope):
                if name == base[1]:
                    binder = ident
                    break
        out.append(((path_of(tn), binder), _ty(tn)))
    if tag == 'quant':
        _refs(node[3], out, path_of, scope)
        _refs(node[4], out, path_of, scope + ((node[2], len(out)),))
        return
    for x in node[1:]:
        if isinstance(x, tuple):
            if x and x[0] == 't':
                _refs(x, out, path_of, scope)
            else:
                for y in x:
                    if isinstance(y, tuple) and y and y[0] == 't':
                        _refs(y, out, path_of, scope)


def predicate_invariant(lifted_pred):
    """lifted_pred = ('pred', typed expr) | ('ptrue',) | ('pfalse',)"""
    from hplmc.absyn import canon, strip_types

    problems = []
    if lifted_pred[0] != 'pred':
        return problems
    root = lifted_pred[1]
    wellformed(root, problems)
    if _ty(root) != B:
        problems.append(("predicate root is not exactly BOOL", _fmt(_ty(root))))
    refs = []
    _refs(root, refs, lambda tn: canon(strip_types(tn)))
    groups = {}
    for path, ty in refs:
        groups.setdefault(path, []).append(ty)
    for path, tys in groups.items():
        inter = ANY
        for t in tys:
            inter = inter & t
        if not inter and all(tys):
            problems.append(('occurrences of one reference share no possible type', f'{path}: {[_fmt(t) for t in tys]}'))
    return problems


# ---------------------------------------------------------------------------
# definite sorts of abstract (untyped) terms  (C05)
# ---------------------------------------------------------------------------


def definite(t):
    """Type set that a term certainly has by its own form (references: open)."""
    tag = t[0]
    if tag == 'lit':
        return lit_kind(t[2])
    if tag == 'this':
        return MSG
    if tag == 'var':
        return ITEM
    if tag in ('field', 'index'):
        return ACCESS
    if tag == 'un':
        return UNARY[t[1]][1]
    if tag == 'bin':
        return BINARY[t[1]][2]
    if tag == 'quant':
        return B
    if tag == 'set':
        return SET
    if tag == 'range':
        return RNG
    if tag == 'call':
        return function_result(t[1]) if t[1] in FUNCTIONS else ANY
    return ANY


def argument_positions(t, path=()):
    """(path, child, parameter type, description) for every argument position."""
    tag = t[0]
    out = []
    if tag == 'un':
        out.append((path + (2,), t[2], UNARY[t[1]][0], f'operand of {t[1]}'))
    elif tag == 'bin':
        p1, p2, _ = BINARY[t[1]]
        out.append((path + (2,), t[2], p1, f'left operand of {t[1]}'))
        out.append((path + (3,), t[3], p2, f'right operand of {t[1]}'))
    elif tag == 'quant':
        out.append((path + (3,), t[3], COMPOUND, 'quantifier domain'))
        out.append((path + (4,), t[4], B, 'quantifier body'))
    elif tag == 'set':
        for i, e in enumerate(t[1]):
            out.append((path + (1, i), e, PRIMITIVE, 'set element'))
    elif tag == 'range':
        out.append((path + (1,), t[1], N, 'range bound'))
        out.append((path + (2,), t[2], N, 'range bound'))
    elif tag == 'field':
        if t[1] != ('this',):
            out.append((path + (1,), t[1], MSG, 'accessed object'))
    elif tag == 'index':
        out.append((path + (1,), t[1], ARR, 'indexed object'))
        out.append((path + (2,), t[2], N, 'index'))
    elif tag == 'call':
        sigs = FUNCTIONS.get(t[1], [])
        one = [s for s in sigs if len(s[0]) == 1]
        if len(t[2]) == 1 and one:
            p = frozenset().union(*[s[0][0] for s in one])
            out.append((path + (2, 0), t[2][0], p, f'argument of {t[1]}'))
    res = list(out)
    for (pp, child, _p, _d) in out:
        res += argument_positions(child, pp)
    return res


def definite_clashes(t):
    """Argument positions whose occupant certainly has a type outside the parameter,
    and calls whose argument count fits no overload."""
    out = [(p, d) for (p, child, param, d) in argument_positions(t) if not (definite(child) & param)]
    from hplmc.absyn import subterms

    for u in subterms(t):
        if u[0] == 'call' and u[1] in FUNCTIONS:
            n = len(u[2])
            if not any(len(ps) == n or (len(ps) < n and v is not None) for ps, v, _r in FUNCTIONS[u[1]]):
                out.append(((), f'argument count of {u[1]}'))
    return out


def eq_sibling_positions(t, path=()):
    """(path, child, sort of the sibling) for operands of = / != whose sibling
    certainly has one base type (a literal or an operator / function result)."""
    out = []
    if t[0] == 'bin' and t[1] in ('=', '!='):
        for me, sib in ((2, 3), (3, 2)):
            d = definite(t[sib])
            if len(d) == 1 and d <= PRIMITIVE:
                out.append((path + (me,), t[me], d))
    for i, x in enumerate(t[1:], start=1):
        if isinstance(x, tuple):
            if x and isinstance(x[0], str):
                out += eq_sibling_positions(x, path + (i,))
            else:
                for j, y in enumerate(x):
                    if isinstance(y, tuple) and y and isinstance(y[0], str):
                        out += eq_sibling_positions(y, path + (i, j))
    return out


def eq_clashes(t):
    """= / != between two operands that certainly have different single base types."""
    out = []
    for u_path, child, sib in eq_sibling_positions(t):
        d = definite(child)
        if len(d) == 1 and not (d & sib):
            out.append(u_path)
    return out


def replace_at(t, path, new):
    if not path:
        return new
    i = path[0]
    if isinstance(t[i], tuple) and t[i] and not isinstance(t[i][0], str):
        # tuple of children (set elements / call arguments)
        j = path[1]
        inner = tuple(replace_at(x, path[2:], new) if k == j else x for k, x in enumerate(t[i]))
        return t[:i] + (inner,) + t[i + 1:]
    return t[:i] + (replace_at(t[i], path[1:], new),) + t[i + 1:]
