"""Independent generic walk over real AST objects through attrs fields.

Any field value that is an AST object, or a tuple/list of them, is a child, in
field declaration order.  Never calls children()/iterate() or any query method.
"""

from __future__ import annotations

import attrs


def _ast_base():
    from hpl.ast.base import HplAstObject

    return HplAstObject


def generic_children(obj):
    Base = _ast_base()
    out = []
    for f in attrs.fields(type(obj)):
        v = object.__getattribute__(obj, f.name)
        if isinstance(v, Base):
            out.append(v)
        elif isinstance(v, (tuple, list)):
            out.extend(x for x in v if isinstance(x, Base))
    return out


def preorder(obj):
    out = [obj]
    for c in generic_children(obj):
        out.extend(preorder(c))
    return out


def cname(o):
    return type(o).__name__


def free_names(obj, bound=frozenset()):
    """Names of @-variables occurring free (not bound by an enclosing quantifier;
    for a simple event: not its own alias)."""
    n = cname(obj)
    g = object.__getattribute__
    if n == 'HplVarReference':
        name = g(obj, 'token')[1:]
        return set() if name in bound else {name}
    if n == 'HplQuantifier':
        out = free_names(g(obj, 'domain'), bound)
        out |= free_names(g(obj, 'condition'), bound | {g(obj, 'variable')})
        return out
    if n == 'HplSimpleEvent':
        out = free_names(g(obj, 'predicate'), bound)
        alias = g(obj, 'alias')
        if alias:
            out.discard(alias)
        return out
    out = set()
    for c in generic_children(obj):
        out |= free_names(c, bound)
    return out


def occurs_var(obj, name):
    return any(cname(o) == 'HplVarReference' and object.__getattribute__(o, 'token')[1:] == name for o in preorder(obj))


def occurs_this(obj):
    return any(cname(o) == 'HplThisMessage' for o in preorder(obj))


def binds(obj, name):
    return any(cname(o) == 'HplQuantifier' and object.__getattribute__(o, 'variable') == name for o in preorder(obj))


def event_aliases(obj):
    out = []
    for o in preorder(obj):
        if cname(o) == 'HplSimpleEvent':
            a = object.__getattribute__(o, 'alias')
            if a is not None:
                out.append(a)
    return tuple(out)


def has_own_field(obj):
    """Some plain field of the current message is referenced (field access directly on this-message)."""
    for o in preorder(obj):
        if cname(o) == 'HplFieldAccess' and cname(object.__getattribute__(o, 'message')) == 'HplThisMessage':
            return True
    return False
