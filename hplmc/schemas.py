"""Message schemas for C04 / C05 / C17: a small schema family described
independently of hpl.types, conversion to real type tokens, an independent
path resolver, and schema-directed atoms for the term enumerator.

Type descriptors:  'B' | 'N' | 'S' | ('arr', T, length) | ('msg', {field: T}, {const: (T, value)})
length -1 = variable length.
"""

from __future__ import annotations

from hplmc.universe import alias_field, num, this_field

tf = this_field


def msg(fields, consts=None):
    return ('msg', dict(fields), dict(consts or {}))


def arr(t, length=-1):
    return ('arr', t, length)


INNER = msg({'h': 'N', 'w': 'B'})
POINT = msg({'f': 'N', 'g': 'B', 'n': INNER})
ITEMM = msg({'f': 'N', 'p': 'B'})

FAMILY = {
    'flat': msg({'x': 'N', 'y': 'N', 'p': 'B', 'q': 'B', 's': 'S'}),
    'arrays': msg({'x': 'N', 'p': 'B', 'xs': arr('N'), 'bs': arr('B'), 'ss': arr('S', 3)}),
    'nested': msg({'x': 'N', 'm': POINT, 's': 'S'}),
    'msgarrays': msg({'x': 'N', 'ms': arr(ITEMM), 'p': 'B'}, {'K': ('N', 5), 'ON': ('B', True), 'NAME': ('S', 'k')}),
    'fixed': msg({'x': 'N', 'e0': arr('N', 0), 'e1': arr('N', 1), 'e3': arr('N', 3), 'mm': arr(arr('N', 2), 2)}),
    'deep': msg({'x': 'N', 'm': msg({'n': msg({'o': msg({'z': 'N', 'zs': arr('N')})})})}),
}
FAMILY['kwnames'] = msg({'ERROR': 'N', 'INFO': 'N', 'PIN': 'N', 'Elapsed': 'N', 'NANOS': 'N', 'notes': 'B', 'android': 'B', 'inner': 'N', 'total': 'N', 'ask': 'B', 'order': 'S', 'nodes': arr('N'), 'Truth': 'B'})
QUICK_SCHEMAS = ('flat', 'arrays', 'nested', 'msgarrays', 'kwnames')
ALL_SCHEMAS = ('flat', 'arrays', 'nested', 'msgarrays', 'fixed', 'deep', 'kwnames')

BASE = {'B': 'BOOL', 'N': 'NUMBER', 'S': 'STRING'}


def base_name(t):
    if isinstance(t, str):
        return BASE[t]
    return 'ARRAY' if t[0] == 'arr' else 'MESSAGE'


def to_token(t, name='T', share=None):
    """Descriptor -> real hpl.types token.  With a dictionary as `share`, equal message / array descriptors become
    ONE token object used in several places (as a ROS message with two fields of one type usually is)."""
    import hpl.types as HT

    if share is not None and not isinstance(t, str):
        key = repr(t)
        if key not in share:
            share[key] = to_token(t, name, None) if t[0] == 'arr' and isinstance(t[1], str) else _to_token_shared(t, name, share)
        return share[key]

    if t == 'B':
        return HT.BOOLEANS
    if t == 'N':
        return HT.FLOAT64
    if t == 'S':
        return HT.STRINGS
    if t[0] == 'arr':
        return HT.ArrayType(name + '[]', to_token(t[1], name + '_elem'), t[2])
    fields = {k: to_token(v, f'{name}_{k}') for k, v in t[1].items()}
    consts = {k: (to_token(v[0], f'{name}_{k}'), v[1]) for k, v in t[2].items()}
    return HT.MessageType(name, fields, consts)


def _to_token_shared(t, name, share):
    import hpl.types as HT

    if t[0] == 'arr':
        return HT.ArrayType(name + '[]', to_token(t[1], name + '_elem', share), t[2])
    fields = {k: to_token(v, f'{name}_{k}', share) for k, v in t[1].items()}
    consts = {k: (to_token(v[0], f'{name}_{k}', share), v[1]) for k, v in t[2].items()}
    return HT.MessageType(name, fields, consts)


# ---------------------------------------------------------------------------
# independent resolver
# ---------------------------------------------------------------------------


class Unresolved(Exception):
    def __init__(self, kind, at):
        super().__init__(f'{kind} at {at}')
        self.kind = kind
        self.at = at


def resolve(path_tree, root_types, bound=frozenset()):
    """Type descriptor named by an accessor chain (abstract tree), or raise
    Unresolved(kind).  root_types: {'this': T, alias: T}.  Variables in `bound`
    are quantified variables (not messages): a chain rooted in one is not a
    schema path (returns None)."""
    tag = path_tree[0]
    if tag == 'this':
        return root_types['this']
    if tag == 'var':
        if path_tree[1] in bound:
            return None
        if path_tree[1] not in root_types:
            raise Unresolved('no message type for the alias', path_tree[1])
        return root_types[path_tree[1]]
    if tag == 'field':
        t = resolve(path_tree[1], root_types, bound)
        if t is None:
            return None
        if isinstance(t, str) or t[0] != 'msg':
            raise Unresolved('field access on a non-message', path_tree[2])
        if path_tree[2] in t[1]:
            return t[1][path_tree[2]]
        if path_tree[2] in t[2]:
            return t[2][path_tree[2]][0]
        raise Unresolved('unknown field', path_tree[2])
    if tag == 'index':
        t = resolve(path_tree[1], root_types, bound)
        if t is None:
            return None
        if isinstance(t, str) or t[0] != 'arr':
            raise Unresolved('index on a non-array', 'index')
        idx = path_tree[2]
        if idx[0] == 'lit' and isinstance(idx[2], int) and not isinstance(idx[2], bool):
            if t[2] >= 0 and not (idx[2] < t[2]):
                raise Unresolved('literal index out of range', idx[2])
        return t[1]
    raise ValueError(f'not an accessor chain: {path_tree!r}')


def leaf_fields(t, prefix=''):
    """Direct walk: dotted name -> descriptor of every non-message field."""
    out = {}
    for k, v in t[1].items():
        if not isinstance(v, str) and v[0] == 'msg':
            out.update(leaf_fields(v, prefix + k + '.'))
        else:
            out[prefix + k] = v
    return out


# ---------------------------------------------------------------------------
# schema-directed atoms
# ---------------------------------------------------------------------------


def paths(t, base, depth=3):
    """All valid accessor chains from `base` (abstract tree) with their descriptor."""
    out = []
    if depth == 0:
        return out
    for k, v in list(t[1].items()) + [(k, c[0]) for k, c in t[2].items()]:
        node = ('field', base, k)
        out.append((node, v))
        out += _extend(node, v, depth - 1)
    return out


def _extend(node, v, depth):
    out = []
    if isinstance(v, str) or depth == 0:
        return out
    if v[0] == 'msg':
        for k, w in list(v[1].items()) + [(k, c[0]) for k, c in v[2].items()]:
            n2 = ('field', node, k)
            out.append((n2, w))
            out += _extend(n2, w, depth - 1)
    else:
        lo = 0
        n2 = ('index', node, num(lo))
        if v[2] != 0:
            out.append((n2, v[1]))
            out += _extend(n2, v[1], depth - 1)
    return out


def renamed(schema, suffix='_o'):
    """The same schema with every top-level field / constant renamed: the message
    type of *another* topic, so that a path valid for one message is not valid
    for the other."""
    return ('msg', {k + suffix: v for k, v in schema[1].items()}, {k + suffix: v for k, v in schema[2].items()})


def retyped(t):
    """The same field tree with every leaf type changed (B -> N -> S -> B) and every array cut to length 1:
    a decoy schema under which most references of a property written for the original are wrong."""
    if isinstance(t, str):
        return {'B': 'N', 'N': 'S', 'S': 'B'}[t]
    if t[0] == 'arr':
        return ('arr', retyped(t[1]), 1)
    return ('msg', {k: retyped(v) for k, v in t[1].items()}, {k: v for k, v in t[2].items()})


def atoms_for(schema, aliases=('A',), depth=3):
    """{sort: [atoms]} for the Grammar: every valid chain of the schema whose
    descriptor is a primitive or an array of primitives, rooted at the current
    message and at each alias."""
    out = {'N': [], 'B': [], 'S': [], 'A': [], 'AB': [], 'AS': []}
    if not isinstance(aliases, dict):
        aliases = {a: schema for a in aliases}
    roots = [(('this',), schema)] + [(('var', a), sc) for a, sc in aliases.items()]
    for root, sc in roots:
        for node, t in paths(sc, root, depth):
            if t == 'N':
                out['N'].append(node)
            elif t == 'B':
                out['B'].append(node)
            elif t == 'S':
                out['S'].append(node)
            elif t[0] == 'arr' and isinstance(t[1], str):
                out[{'N': 'A', 'B': 'AB', 'S': 'AS'}[t[1]]].append(node)
    return out


def accessor_nodes(tree):
    """Maximal and inner accessor chains (abstract) of a term, each once per occurrence."""
    out = []

    def walk(t, bound):
        tag = t[0]
        if tag in ('field', 'index'):
            out.append((t, bound))
            walk(t[1], bound)
            if tag == 'index':
                walk(t[2], bound)
            return
        if tag == 'quant':
            walk(t[3], bound)
            walk(t[4], bound | {t[2]})
            return
        for x in t[1:]:
            if isinstance(x, tuple):
                if x and isinstance(x[0], str):
                    walk(x, bound)
                else:
                    for y in x:
                        if isinstance(y, tuple):
                            walk(y, bound)

    walk(tree, frozenset())
    return out
