"""Import-time self test run by MANIFEST.setup_cmd: the harness can see the
repository and the private field names `lift` relies on still exist."""
import sys
from pathlib import Path

sys.path.insert(0, str(Path(__file__).resolve().parent.parent))
from hplmc import core  # noqa: E402

core.setup_env()


def main():
    import hpl  # noqa: F401
    from hpl.types import DataType

    assert len(list(DataType)) >= 7
    try:
        from hplmc import absyn

        absyn.selftest()
    except ImportError:
        pass
    print('selftest ok; hpl from', hpl.__file__)


if __name__ == '__main__':
    main()
