"""Operator / function signature matrices shared by C03, C04 and C05: every
binary and unary operator and every built-in function (one-argument form, the
only one the grammar can produce) with every valid argument shape, and with
every wrong-sorted argument / every misuse of its result.

Field naming convention (schema MATRIX_SCHEMA): x y number, p q bool, s string,
xs number array, bs bool array, m message {f number}.
"""

from __future__ import annotations

from hplmc import schemas
from hplmc.ref import types as T
from hplmc.universe import alias_field, num, this_field

tf = this_field

MATRIX_SCHEMA = schemas.msg({'x': 'N', 'y': 'N', 'p': 'B', 'q': 'B', 's': 'S', 'xs': schemas.arr('N'), 'bs': schemas.arr('B'), 'm': schemas.msg({'f': 'N'})})

TRUE = ('lit', 'True', True)
STR = ('lit', '"a"', '"a"')

# values of each exact sort: (tree, is_reference)
VALUES = {
    'N': [tf('x'), num(1), ('lit', '2.5', 2.5), ('un', '-', tf('y')), ('bin', '+', tf('x'), num(1)), ('call', 'abs', (tf('y'),)), ('index', tf('xs'), num(0)), ('field', tf('m'), 'f'), alias_field('A', 'x_o')],
    'B': [tf('p'), TRUE, ('un', 'not', tf('q')), ('bin', '<', tf('x'), num(1)), ('bin', 'and', tf('p'), tf('q')), ('index', tf('bs'), num(0)), alias_field('A', 'p_o')],
    'S': [tf('s'), STR, ('call', 'str', (num(1),))],
    'ARR': [tf('xs'), alias_field('A', 'xs_o')],
    'SET': [('set', (num(1), num(2))), ('set', (tf('x'),))],
    'RNG': [('range', num(0), num(3), False, False), ('range', tf('x'), num(3), True, True)],
    'MSG': [tf('m')],
}
SORT_TYPES = {'N': T.N, 'B': T.B, 'S': T.S, 'ARR': T.ARR, 'SET': T.SET, 'RNG': T.RNG, 'MSG': T.MSG}


def sorts_within(param):
    return [s for s, ty in SORT_TYPES.items() if ty <= param]


def sorts_outside(param):
    return [s for s, ty in SORT_TYPES.items() if not (ty & param)]


def use_result(tree, result):
    """A boolean context that uses `tree` at its declared result type."""
    if result == T.B:
        return tree
    if result == T.N:
        return ('bin', '>', tree, num(0))
    if result == T.S:
        return ('bin', '=', tree, STR)
    raise ValueError(result)


def misuse_result(tree, result):
    """Boolean contexts that require `tree` at a type disjoint from its declared result."""
    out = []
    if not (result & T.B):
        out.append(('un', 'not', tree))
        out.append(('bin', 'and', tree, tf('p')))
    if not (result & T.N):
        out.append(('bin', '>', tree, num(0)))
        out.append(('bin', '=', ('bin', '+', tree, num(1)), tf('y')))
        out.append(('bin', '>', ('index', tf('xs'), tree), num(0)))
    if not (result & T.COMPOUND):
        out.append(('bin', 'in', tf('x'), tree)) if tree[0] in ('un', 'bin', 'call', 'lit', 'quant') else None
    return [o for o in out if o is not None]


def valid_cases():
    """(description, boolean tree) - all well-typed under MATRIX_SCHEMA."""
    out = []
    for op, (p, res) in T.UNARY.items():
        for s_ in sorts_within(p):
            for a in VALUES[s_]:
                out.append((f'unary {op}', use_result(('un', op, a), res)))
    for op, (p1, p2, res) in T.BINARY.items():
        for s1 in sorts_within(p1):
            for s2 in sorts_within(p2):
                if op in ('=', '!=') and s1 != s2:
                    continue
                if op == 'in' and not _member_ok(s1, s2):
                    continue
                for a in VALUES[s1][:5]:
                    for b in VALUES[s2][:5]:
                        out.append((f'binary {op}', use_result(('bin', op, a, b), res)))
    for f, sigs in T.FUNCTIONS.items():
        for params, variadic, res in sigs:
            if len(params) != 1:
                continue
            for s_ in sorts_within(params[0]):
                for a in VALUES[s_]:
                    out.append((f'function {f}', use_result(('call', f, (a,)), res)))
    return out


def _member_ok(s1, s2):
    # x in <compound>: numbers in number arrays / sets / ranges (the element sorts of the menus)
    return s1 == 'N'


def invalid_cases():
    """(description, boolean tree) - exactly one definite clash each."""
    out = []
    for op, (p, res) in T.UNARY.items():
        for s_ in sorts_outside(p):
            for a in VALUES[s_][:3]:
                if _is_ref(a):
                    continue
                out.append((f'operand of {op}', use_result(('un', op, a), res)))
        for a in VALUES[sorts_within(p)[0]][:2]:
            for m in misuse_result(('un', op, a), res):
                out.append((f'result of {op} misused', m))
    good = {'N': tf('x'), 'B': tf('p'), 'S': tf('s'), 'ARR': tf('xs'), 'SET': VALUES['SET'][0], 'RNG': VALUES['RNG'][0], 'MSG': tf('m')}
    for op, (p1, p2, res) in T.BINARY.items():
        ok1 = good[sorts_within(p1)[0]]
        ok2 = good[sorts_within(p2)[0]]
        for s_ in sorts_outside(p1):
            for a in VALUES[s_][:3]:
                if not _is_ref(a):
                    out.append((f'left operand of {op}', use_result(('bin', op, a, ok2), res)))
        for s_ in sorts_outside(p2):
            for b in VALUES[s_][:3]:
                if not _is_ref(b):
                    out.append((f'right operand of {op}', use_result(('bin', op, ok1, b), res)))
        for m in misuse_result(('bin', op, ok1, ok2), res):
            out.append((f'result of {op} misused', m))
    for f, sigs in T.FUNCTIONS.items():
        one = [sg for sg in sigs if len(sg[0]) == 1]
        if not one:
            # no one-argument overload: every one-argument call is a type error
            for a in (num(1), tf('x'), VALUES['SET'][0]):
                out.append((f'argument count of {f}', ('bin', '>', ('call', f, (a,)), num(0))))
            continue
        param = frozenset().union(*[sg[0][0] for sg in one])
        res = T.function_result(f)
        for s_ in sorts_outside(param):
            for a in VALUES[s_][:3]:
                if not _is_ref(a):
                    out.append((f'argument of {f}', use_result(('call', f, (a,)), res)))
        okarg = good[sorts_within(param)[0]]
        for m in misuse_result(('call', f, (okarg,)), res):
            out.append((f'result of {f} misused', m))
    return out


def _is_ref(t):
    return t[0] in ('field', 'index', 'var')
