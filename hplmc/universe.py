"""E2 - bounded-exhaustive universes of abstract trees.

A sorted grammar is enumerated by node count, smallest first, completely up to
the bound.  Sorts:  B bool, N number, S string, A number array, AB bool array,
SET (set of numbers), R range, M message.

Sub-levels are memoised lists; the top level is produced by a generator so a
worker can take every k-th element of an enumeration without materialising it.
"""

from __future__ import annotations

from itertools import product

ARITH = ('+', '-', '*', '/', '**')
CMP = ('=', '!=', '<', '<=', '>', '>=')
CONN = ('and', 'or', 'implies', 'iff')

# naming convention of the alphabets (sort of each field / alias field / variable)
NAME_SORT = {
    'x': 'N', 'y': 'N', 'z': 'N', 'f': 'N', 'v': 'N', 'w': 'N',
    'p': 'B', 'q': 'B', 'r': 'B',
    's': 'S', 'u': 'S',
    'xs': 'A', 'ys': 'A', 'bs': 'AB',
    'm': 'M',
    '_n': 'N', '_ready': 'B',
}


def this_field(name):
    return ('field', ('this',), name)


def alias_field(alias, name):
    return ('field', ('var', alias), name)


def num(n):
    return ('lit', str(n), n)


TRUE = ('lit', 'True', True)
FALSE = ('lit', 'False', False)


def contains_var(t, name):
    if t[0] == 'var':
        return t[1] == name
    for x in t[1:]:
        if isinstance(x, tuple):
            if x and isinstance(x[0], str):
                if contains_var(x, name):
                    return True
            else:
                for y in x:
                    if isinstance(y, tuple) and contains_var(y, name):
                        return True
    return False


class Grammar:
    """Configuration + memoised enumeration.

    atoms: {sort: [trees]}            (size-1 terms; compound atoms such as
                                       ('field', this, 'x') count as ONE node)
    un_minus, arith, cmp, conn, neg:  operator alphabets
    eq_sorts: sorts on which '='/'!=' are generated (default just N)
    funcs: {name: (argsort, resultsort)} one-argument calls
    set_widths, range_flags, quants, domains: compound values and quantifiers
    qvars: names for nested quantified variables (sort N)
    index: allow xs[N] for array atoms
    """

    def __init__(self, atoms, arith=ARITH, cmp=CMP, conn=CONN, neg=True, un_minus=True, eq_sorts=('N',),
                 funcs=None, set_widths=(), range_flags=(), quants=(), domains=('A',), qvars=('i', 'j'),
                 index=False, inclusion=(), qvar_atoms=None):
        self.atoms = {k: list(v) for k, v in atoms.items()}
        self.arith, self.cmp, self.conn = tuple(arith), tuple(cmp), tuple(conn)
        self.neg, self.un_minus = neg, un_minus
        self.eq_sorts = tuple(eq_sorts)
        self.funcs = dict(funcs or {})
        self.set_widths = tuple(set_widths)
        self.range_flags = tuple(range_flags)
        self.quants = tuple(quants)
        self.domains = tuple(domains)
        self.qvars = tuple(qvars)
        self.index = index
        self.inclusion = tuple(inclusion)  # sorts allowed on the right of 'in'
        self.qvar_atoms = qvar_atoms  # callable(env) -> {sort: [atoms mentioning bound variables]}
        self._memo = {}

    # -- public -----------------------------------------------------------
    def exactly(self, sort, n, env=()):
        key = (sort, n, env)
        r = self._memo.get(key)
        if r is None:
            r = list(self._gen(sort, n, env))
            self._memo[key] = r
        return r

    def upto(self, sort, n, env=()):
        for k in range(1, n + 1):
            yield from self.exactly(sort, k, env)

    def stream(self, sort, n, env=()):
        """Generator for exactly n nodes (sub-levels memoised, top level not)."""
        return self._gen(sort, n, env)

    def count(self, sort, n):
        return sum(1 for _ in self._gen(sort, n, ()))

    # -- productions ------------------------------------------------------
    DOMAIN_ELEMENT_SORT = {'AB': 'B', 'AS': 'S'}  # every other domain sort has numeric elements

    def _atoms(self, sort, env):
        """env: tuple of (variable name, sort) pairs of the enclosing quantifiers."""
        out = list(self.atoms.get(sort, ()))
        if self.qvar_atoms is not None:
            if env:
                out += self.qvar_atoms(tuple(v for v, _s in env)).get(sort, [])
        else:
            out += [('var', v) for v, s in env if s == sort]
        return out

    def _splits(self, total, parts):
        """All ways to write total as an ordered sum of `parts` positive ints."""
        if parts == 1:
            if total >= 1:
                yield (total,)
            return
        for first in range(1, total - parts + 2):
            for rest in self._splits(total - first, parts - 1):
                yield (first,) + rest

    def _gen(self, sort, n, env):
        if n == 1:
            yield from self._atoms(sort, env)
            return
        E = lambda s, k: self.exactly(s, k, env)  # noqa: E731
        if sort == 'N':
            if self.un_minus:
                for a in E('N', n - 1):
                    yield ('un', '-', a)
            for op in self.arith:
                for (i, j) in self._splits(n - 1, 2):
                    for a in E('N', i):
                        for b in E('N', j):
                            yield ('bin', op, a, b)
            for f, (asort, rsort) in self.funcs.items():
                if rsort == 'N':
                    for a in E(asort, n - 1):
                        yield ('call', f, (a,))
            if self.index:
                for arr in self.atoms.get('A', ()):
                    for a in E('N', n - 1):
                        yield ('index', arr, a)
        elif sort == 'B':
            if self.neg:
                for a in E('B', n - 1):
                    yield ('un', 'not', a)
            for op in self.conn:
                for (i, j) in self._splits(n - 1, 2):
                    for a in E('B', i):
                        for b in E('B', j):
                            yield ('bin', op, a, b)
            for op in self.cmp:
                sorts = self.eq_sorts if op in ('=', '!=') else ('N',)
                for s in sorts:
                    for (i, j) in self._splits(n - 1, 2):
                        for a in E(s, i):
                            for b in E(s, j):
                                yield ('bin', op, a, b)
            for ds in self.inclusion:
                for (i, j) in self._splits(n - 1, 2):
                    for a in E('N', i):
                        for d in E(ds, j):
                            yield ('bin', 'in', a, d)
            for f, (asort, rsort) in self.funcs.items():
                if rsort == 'B':
                    for a in E(asort, n - 1):
                        yield ('call', f, (a,))
            if self.quants:
                used = {v for v, _s in env}
                free = [v for v in self.qvars if v not in used]
                if free:
                    v = free[0]
                    for (i, j) in self._splits(n - 1, 2):
                        for ds in self.domains:
                            vs = self.DOMAIN_ELEMENT_SORT.get(ds, 'N')
                            for d in E(ds, i):
                                for body in self.exactly('B', j, env + ((v, vs),)):
                                    if not contains_var(body, v):
                                        continue
                                    for q in self.quants:
                                        yield ('quant', q, v, d, body)
        elif sort == 'SET':
            for w in self.set_widths:
                for split in self._splits(n - 1, w):
                    for elems in product(*[E('N', k) for k in split]):
                        yield ('set', tuple(elems))
        elif sort == 'R':
            for (i, j) in self._splits(n - 1, 2):
                for a in E('N', i):
                    for b in E('N', j):
                        for (e1, e2) in self.range_flags:
                            yield ('range', a, b, e1, e2)
        # A, AB, S, M: atoms only


# ---------------------------------------------------------------------------
# slots and valuations
# ---------------------------------------------------------------------------


def slots(t, bound=()):
    """Free data slots of a term: ('this', name) / (alias, name) / ('@', var).
    A chain such as m.f or xs[0] is keyed by its first field only."""
    out = set()

    def walk(t, bound):
        tag = t[0]
        if tag == 'field':
            if t[1] == ('this',):
                out.add(('this', t[2]))
                return
            if t[1][0] == 'var' and t[1][1] not in bound:
                out.add((t[1][1], t[2]))
                return
            walk(t[1], bound)
            return
        if tag == 'var':
            if t[1] not in bound:
                out.add(('@', t[1]))
            return
        if tag == 'quant':
            walk(t[3], bound)
            walk(t[4], bound + (t[2],))
            return
        for x in t[1:]:
            if isinstance(x, tuple):
                if x and isinstance(x[0], str):
                    walk(x, bound)
                else:
                    for y in x:
                        if isinstance(y, tuple):
                            walk(y, bound)

    walk(t, tuple(bound))
    return sorted(out)


GRID = {
    'N': (-1, 0, 1, 2),
    'B': (True, False),
    'S': ('"a"', '""'),
    'A': ((), (0,), (1, 2), (1, 1)),
    'AB': ((), (True,), (True, False)),
    'AS': ((), ('"a"',)),
    'M': ({'f': 0, 'x': 1, 'p': True}, {'f': 2, 'x': -1, 'p': False}),
}


def valuations(slot_list, grid=GRID, sort_of=None):
    """All assignments of grid values to the slots -> list of env dicts
    {'this': {...}, alias: {...}, ('@', v): value}."""
    sort_of = sort_of or (lambda slot: NAME_SORT.get(slot[1], 'N'))
    doms = [grid[sort_of(s)] for s in slot_list]
    for combo in product(*doms):
        env = {'this': {}}
        for s, val in zip(slot_list, combo):
            if s[0] == 'this':
                env['this'][s[1]] = val
            elif s[0] == '@':
                env[('@', s[1])] = val
            else:
                env.setdefault(('@', s[0]), {})[s[1]] = val
        yield env


# ---------------------------------------------------------------------------
# operator-pair matrix: precedence and associativity of every pair of operators
# ---------------------------------------------------------------------------

_OP_SIG = {}
for _op in ARITH:
    _OP_SIG[_op] = ('N', 'N', 'N')
for _op in ('<', '<=', '>', '>='):
    _OP_SIG[_op] = ('N', 'N', 'B')
for _op in CONN:
    _OP_SIG[_op] = ('B', 'B', 'B')
_OP_SIG['='] = ('N', 'N', 'B')
_OP_SIG['!='] = ('N', 'N', 'B')
_OP_SIG['in'] = ('N', 'A', 'B')
_EQB = {'=': ('B', 'B', 'B'), '!=': ('B', 'B', 'B')}


def operator_pair_matrix():
    """Every well-sorted (a op1 b) op2 c and a op1 (b op2 c) over all pairs of the 16
    binary operators (= and != at number and boolean sort), plus the unary operators in
    each operand position.  Atoms: x y z numbers, p q r booleans, xs array."""
    atoms = {'N': [this_field('x'), this_field('y'), this_field('z')], 'B': [this_field('p'), this_field('q'), this_field('r')], 'A': [this_field('xs')]}
    sigs = [(op, s) for op, s in _OP_SIG.items()] + [(op, s) for op, s in _EQB.items()]
    out = []
    seen = set()

    def add(t):
        if t not in seen:
            seen.add(t)
            out.append(t)

    for op1, (a1, b1, r1) in sigs:
        for op2, (a2, b2, r2) in sigs:
            # (A op1 B) op2 C : result of op1 must fit the left parameter of op2
            if r1 == a2:
                add(('bin', op2, ('bin', op1, atoms[a1][0], atoms[b1][1 % len(atoms[b1])]), atoms[b2][2 % len(atoms[b2])]))
            # A op1 (B op2 C) : result of op2 must fit the right parameter of op1
            if r2 == b1:
                add(('bin', op1, atoms[a1][0], ('bin', op2, atoms[a2][1 % len(atoms[a2])], atoms[b2][2 % len(atoms[b2])])))
    for op, (a, b, r) in sigs:
        un = {'N': '-', 'B': 'not'}
        if a in un:
            add(('bin', op, ('un', un[a], atoms[a][0]), atoms[b][1 % len(atoms[b])]))
            add(('un', un[a], ('bin', op, atoms[a][0], atoms[b][1 % len(atoms[b])])) if r == a else ('bin', op, atoms[a][0], atoms[b][1 % len(atoms[b])]))
        if b in un:
            add(('bin', op, atoms[a][0], ('un', un[b], atoms[b][1 % len(atoms[b])])))
        if r in un:
            add(('un', un[r], ('bin', op, atoms[a][0], atoms[b][1 % len(atoms[b])])))
    # quantifiers next to binary operators
    q = ('quant', 'forall', 'i', this_field('xs'), ('bin', '>', ('var', 'i'), num(0)))
    for op in CONN:
        add(('bin', op, q, this_field('p')))
        add(('bin', op, this_field('p'), q))
        add(('quant', 'exists', 'i', this_field('xs'), ('bin', op, ('bin', '>', ('var', 'i'), num(0)), this_field('p'))))
    add(('un', 'not', q))
    return out
