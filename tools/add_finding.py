#!/venv/bin/python
"""tools/add_finding.py <property> fixed|known <commit-or-dash> <signature> <what>"""
import json, sys
p = '/verif/known_findings.json'
d = json.load(open(p))
prop, status, commit, sig, what = sys.argv[1:6]
e = {'property': prop, 'status': status, 'signature': sig}
if status == 'fixed':
    e['commit'] = commit
    e['line'] = f'fixed: property={prop} {commit} {what}'
else:
    e['what'] = what
d['findings'].append(e)
json.dump(d, open(p, 'w'), indent=1)
