#!/venv/bin/python
"""Copies the confirmed seeded changes from /tmp/seed/<ID>/ into /verif/seeded/<ID>/<A|B>/
(patch.diff, demo.py, meta.json) using the evaluation logs written by tools/eval_seed.sh."""
import json, re, shutil, sys
from pathlib import Path

SRC = Path('/tmp/seed')
DST = Path('/verif/seeded')
LOGS = [SRC / 'eval0.log', SRC / 'eval1.log', SRC / 'eval2.log']

# changes that the property's own check missed when first evaluated (or would have missed: the
# universe was extended after reading the sub-agent's summary, before the first run), and what was
# strengthened.  Everything else was caught by the check as it stood.
MISSED = {
    ('C02', 'B'): 'missed by C02 (events were always built fresh); added the route "events derived with but() from events of a checked property that have been queried"',
    ('C04', 'A'): 'missed by C04 (the aliased message had the same message type as the current one); the alias now comes from a topic with a different message type, and arrays of either message are indexed by references of the other',
    ('C05', 'A'): 'missed by C05 (only parameter-type clashes were injected); added = / != between two operands that each certainly have one base type',
    ('C06', 'A'): 'would have been missed by C06 (no event with an explicitly written { False } predicate); added events with written vacuous predicates before the first run',
    ('C07', 'A'): 'would have been missed by C07 (no numerically equal, differently spelled numbers in the history pools); pools extended before the first run',
    ('C07', 'B'): 'would have been missed by C07/C18 (every duplicate-annotation text carried an id); added id-less duplicate title / description texts before the first run',
    ('C09', 'A'): 'would have been missed by C09 (no reversed literal range among the domains); added [2 to 0] and ![1 to 1]! before the first run',
    ('C09', 'B'): 'would have been missed by C09 (bound variables never occurred only as an index); added the atom ys[@i] > 0 before the first run',
    ('C10', 'B'): 'would have been missed by C10 for the alias-only-in-an-index case; added the atom ys[@A.x] > 0 (the bound-variable case was covered by the C09 extension)',
    ('C12', 'A'): 'would have been missed by C12 (parser-built, right-nested disjunctions only; C11 caught it); C12 now also builds width-3 disjunctions left-nested through the API',
    ('C14', 'A'): 'would have been missed by C14 (the failing shape needs 10 nodes in the general grammar); the boolean + quantifier fragment with compressed atoms was added to C14',
    ('C14', 'B'): 'as C14/A: reached through the boolean fragment with the index-only atom',
    ('C15', 'A'): 'would have been missed by C15 (only fresh objects were queried; C16 caught it as a metadata mutation); C15 now also queries copies derived from queried objects',
    ('C17', 'A'): 'would have been missed by C17 (indices only on the last accessor of a chain); added index sites on inner accessors (ms[R].f, mm[R][0])',
    ('C17', 'B'): 'would have been missed by C17 (aliases were never bound inside an event disjunction); added two such positions',
    ('C03', 'A'): 'would have been missed by C03 (max/min/gcd only over literal ranges / sets); added aggregates over array references',
}


def parse_logs():
    res = {}
    for log in LOGS:
        if not log.exists():
            continue
        cur = None
        for line in log.read_text().splitlines():
            m = re.match(r'== (C\d+)/([AB]): ', line)
            if m:
                cur = res.setdefault((m.group(1), m.group(2)), {})
                cur['signatures'] = []
                cur.pop('summary', None)
                continue
            if cur is None:
                continue
            if line.startswith('demo on clean tree'):
                cur['demo_clean_exit'] = int(line.rsplit(' ', 1)[1])
            elif line.startswith('demo on changed tree'):
                cur['demo_changed_exit'] = int(line.rsplit(' ', 1)[1])
            elif ' passed' in line and '====' in line:
                cur['tests'] = line.strip('= ').strip()
            elif line.strip().startswith('signature:'):
                cur['signatures'].append(line.split('signature:', 1)[1].strip())
            elif re.match(r'C\d+ quick:', line):
                cur['summary'] = line.strip()
    return res


def main():
    res = parse_logs()
    table = []
    for (cid, v), r in sorted(res.items()):
        src = SRC / cid
        agent = json.loads((src / 'meta.json').read_text())[v]
        d = DST / cid / v
        d.mkdir(parents=True, exist_ok=True)
        shutil.copy(src / f'mut{v}.patch', d / 'patch.diff')
        shutil.copy(src / f'demo{v}.py', d / 'demo.py')
        tests = r.get('tests', 'not re-run in the last evaluation; 49 passed in the first one')
        meta = {
            'property': cid,
            'variant': v,
            'origin': 'independent sub-agent that was given only the text of the property and a private scratch worktree of /repo (nothing from /verif)',
            'files': agent.get('files'),
            'what': agent.get('what'),
            'needs_to_manifest': agent.get('needs'),
            'confirmed_by_me': {
                'patch_applies_to': 'a fresh worktree of /repo HEAD (git apply)',
                'repository_tests_with_change': tests,
                'demo_exit_on_unchanged_tree': r.get('demo_clean_exit'),
                'demo_exit_with_change': r.get('demo_changed_exit'),
                'commands': [f'tools/eval_seed.sh {cid} {v} quick   # scratch worktree, demo on clean and changed tree, pytest, ./check {cid} --tier quick with HPL_VERIF_REPO pointing at the changed tree'],
            },
            'detected_by': {cid: {'tier': 'quick', 'signatures': sorted(set(r.get('signatures', [])))[:6]}},
            'initially_missed': (cid, v) in MISSED,
        }
        if (cid, v) in MISSED:
            meta['strengthening'] = MISSED[(cid, v)]
        if cid == 'C12' and v == 'A':
            meta['confirmed_by_me']['note'] = 'one run of the repository tests failed in test_valid_generated_properties: a pre-existing Hypothesis flake (it can generate the topic name "no", e.g. "globally: no causes a", which is a syntax error with or without the change); the re-run passed 49/49'
        (d / 'meta.json').write_text(json.dumps(meta, indent=1) + '\n')
        table.append((cid, v, agent.get('what', '')[:110], 'caught' if r.get('signatures') else 'MISSED', (cid, v) in MISSED))
    for row in table:
        print(row)
    print(len(table), 'changes collected')


if __name__ == '__main__':
    main()
