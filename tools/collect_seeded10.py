#!/venv/bin/python
"""Completes the meta.json of the tenth-round seeded changes (variants S = ordinary regression, T = specific and rare trigger)
from the evaluation logs: /tmp/seed10_eval_{a,b}.log (checks as they stood when the changes arrived, with the
repository tests), /tmp/seed10_eval_{c,d,e}.log (after strengthening)."""
import json, re
from pathlib import Path

STRENGTHENING = {
    ('C01', 'S'): 'missed by C01: the numeric constants among the atoms were PI and E only (NAN compares unequal to itself and had been left out); every constant (PI, E, INF, NAN) is now placed in 15 operand slots through three entry points, compared NaN-safely',
    ('C01', 'T'): 'missed by C01: no ill-formed text contained a letter, digit or mark outside ASCII inside a name; 11 such characters x 6 positions in a name x 20 kinds of name slot were added',
    ('C04', 'T'): 'missed by C04: alias-bound disjunctions had two members with one alias; wrappers whose alias is bound by the middle / the last of three alternatives that each bind an alias were added',
    ('C05', 'S'): 'missed by C05: every clash was presented as text (the parser pre-casts operands itself); each injected and each reuse clash is now also built bottom-up with the constructors',
    ('C06', 'T'): 'missed by C06: every object was printed once, whole first; predicates and properties are now also printed through a twin whose parts are printed before and after the whole',
    ('C07', 'T'): 'missed by C07: type errors whose message names a combination of base types were not provoked; quantifiers over set literals with members of 1-3 kinds among 9 x 14 typed uses of the variable were added',
    ('C08', 'T'): 'missed by C08: the long-range family only asked sum(...) >= 0; the folded sum and length are now equated with the exact integers (and with them +- 1) for 9 upper bounds from 2**26.5 to 2**64 x 3 lower bounds x 4 bracket forms',
    ('C10', 'T'): 'missed by C10: no directly nested quantifiers whose inner domain is built from the outer variable; all four kind pairs over 4 inner domains x pairs of 7 members were added',
    ('C11', 'T'): 'missed by C11: no alternative had the literal False as predicate; two decorations (False on the first / the last alternative of every event) were added',
    ('C12', 'S'): 'missed by C12: the two events of a pattern never shared a topic; alternatives equal to or overlapping the other event (and False-predicate alternatives) were added for every pattern under three scopes',
    ('C12', 'T'): 'missed by C12: the API-built window property never printed like an earlier property of the same process; a window [T/2, T] property is now built right after the parsed property with the bound T',
    ('C13', 'T'): 'missed by C13: a quantifier over a literal range or set that mentions the alias needs 6+ nodes, beyond the term bound of the quick tier; 2 quantifiers x 5 references x 6 literal domains x 3 bodies (and two nested ones) were added to the operator matrix',
    ('C14', 'T'): 'missed by C14: no term had a sum of two sums next to a literal -1 (9 nodes); every bracketing of four operands under + and * combined with -1, 0, 1, 2 on either side under * + - / was added',
    ('C16', 'S'): 'missed by C16: the equality / hash probe set an arbitrary metadata key, not the documented id; twins now differ in id, title and description (set through the dictionary and through annotations), the hash is taken before and after, and the twins must collapse in a set',
    ('C17', 'T'): 'missed by C17: every type token was a fresh object; the helper queries now also run on message types whose equal sub-messages are one shared token object, and on a pair of twists',
    ('C19', 'T'): 'missed by C19: the longest file had three properties; files just beyond 4 KiB, 8 KiB, 64 KiB and 128 KiB (thorough: 1 MiB) were added, valid and with the only error in the last property',
    ('C20', 'S'): 'missed by C20: the constructor probe covered 9 operand slots, not range bounds; it now covers 27 (operators of each class, accessors, function arguments, range bounds, set members, the container of `in`, quantifier domain and body)',
    ('C20', 'T'): 'missed by C20: the bound variable was used directly in the body; it is now also used under a connective and one and two nested quantifiers down, over one- and two-kind set domains and ranges',
}


def parse(path):
    res = {}
    if not Path(path).exists():
        return res
    blocks = re.split(r'#### (OLD|NEW)\n', Path(path).read_text())
    for i in range(1, len(blocks) - 1, 2):
        kind, text = blocks[i], blocks[i + 1]
        m = re.search(r'== (C\d+)/([ST]):', text)
        if not m:
            continue
        key = (m.group(1), m.group(2))
        sigs = re.findall(r'signature: (.*)', text)
        tests = re.search(r'=+ (.*passed.*?) =+', text)
        demo = dict(re.findall(r'demo on (clean|changed) tree: exit (\d+)', text))
        res.setdefault(key, {})[kind] = {'sigs': sigs, 'tests': tests.group(1) if tests else None, 'demo': demo}
    return res


def main():
    old = {}
    for f in ('/tmp/seed10_eval_a.log', '/tmp/seed10_eval_b.log', '/tmp/seed10_eval_b2.log', '/tmp/seed10_eval_b3.log'):
        old.update(parse(f))
    new = {}
    for f in ('/tmp/seed10_eval_c.log', '/tmp/seed10_eval_d.log', '/tmp/seed10_eval_e.log', '/tmp/seed10_eval_f.log', '/tmp/seed10_eval_g.log'):
        new.update(parse(f))
    n_missed = 0
    for key in sorted(old):
        cid, v = key
        o = old[key]['OLD']
        n = new.get(key, {}).get('NEW')
        d = Path('/verif/seeded') / cid / v
        meta = json.loads((d / 'meta.json').read_text())
        tests = o['tests']
        meta['confirmed_by_me'] = {
            'patch_applies_to': 'a fresh worktree of /repo HEAD (git apply)',
            'repository_tests_with_change': tests,
            'demo_exit_on_unchanged_tree': int(o['demo'].get('clean', -1)),
            'demo_exit_with_change': int(o['demo'].get('changed', -1)),
            'commands': [f'tools/eval_seed.sh {cid} {v} quick   # scratch worktree, demo on clean and changed tree, pytest, ./check {cid} --tier quick against the changed tree',
                         'first with VERIF_DIR pointing at a worktree of /verif as it was when the change arrived, then (if missed) with the strengthened checks'],
        }
        if tests and 'failed' in tests:
            meta['confirmed_by_me']['note'] = 'that run was made while 12 other evaluations shared the machine (load average above 70) and hit a Hypothesis deadline / the pre-existing flake of test_valid_generated_properties; re-run on its own (/tmp/retest.sh) the suite passed 49/49 with the change'
            meta['confirmed_by_me']['repository_tests_with_change'] = '49 passed on the re-run (first run: ' + tests + ')'
        missed = not o['sigs']
        sigs = o['sigs'] if not missed else (n['sigs'] if n else [])
        meta['detected_by'] = {cid: {'tier': 'quick', 'signatures': sorted(set(sigs))[:6]}} if sigs else {}
        meta['initially_missed'] = missed
        meta.pop('strengthening', None)
        if missed:
            n_missed += 1
            meta['strengthening'] = STRENGTHENING[key]
        (d / 'meta.json').write_text(json.dumps(meta, indent=1) + '\n')
        print(key, 'initially missed' if missed else 'caught as it stood', '|', 'NOW CAUGHT' if sigs else 'NOT DETECTED', '|', tests)
    print(len(old), 'changes;', n_missed, 'initially missed')


if __name__ == '__main__':
    main()
