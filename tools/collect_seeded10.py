#!/venv/bin/python
"""Completes the meta.json of the tenth-round seeded changes (variants S = ordinary regression, T = specific and rare trigger)
from the evaluation logs: /tmp/seed10_eval_{a,b}.log (checks as they stood when the changes arrived, with the
repository tests), /tmp/seed10_eval_{c,d,e}.log (after strengthening)."""
import json, re
from pathlib import Path

STRENGTHENING = {
    ('C12', 'Q'): 'missed by C12: the predicates of the event alternatives were atomic, so splitting a predicate over its conjuncts could not show; a conjunctive and a disjunctive predicate on the first alternative were added as decorations',
    ('C13', 'R'): 'missed by C13: the term grammar has = and < only, and negate was never applied to a predicate whose top is >=; an operator matrix (all six comparisons x 7 operand shapes, the connectives, inclusions, quantifiers, each also below `not`) was added for negate (once and twice), the replacements, the event rewrite and join',
    ('C16', 'R'): 'missed by C16: no probe built a specification around an existing property; HplSpecification((obj,)) and ((obj, obj)) were added to the alphabet of properties',
    ('C20', 'Q'): 'missed by C20 (the change is in HplFunctionCall, outside src/hpl/types.py; C03 reaches it): the operand stored by each of 9 constructors must carry exactly the intersection of its type set with the parameter type',
    ('C20', 'R'): 'missed by C20 (the change is in the predicate-level reference table; C03 / C05 reach it): a reference used as a primitive and as the domain of a quantifier must be rejected',
}


def parse(path):
    res = {}
    if not Path(path).exists():
        return res
    blocks = re.split(r'#### (OLD|NEW)\n', Path(path).read_text())
    for i in range(1, len(blocks) - 1, 2):
        kind, text = blocks[i], blocks[i + 1]
        m = re.search(r'== (C\d+)/([ST]):', text)
        if not m:
            continue
        key = (m.group(1), m.group(2))
        sigs = re.findall(r'signature: (.*)', text)
        tests = re.search(r'=+ (.*passed.*?) =+', text)
        demo = dict(re.findall(r'demo on (clean|changed) tree: exit (\d+)', text))
        res.setdefault(key, {})[kind] = {'sigs': sigs, 'tests': tests.group(1) if tests else None, 'demo': demo}
    return res


def main():
    old = {}
    for f in ('/tmp/seed10_eval_a.log', '/tmp/seed10_eval_b.log'):
        old.update(parse(f))
    new = {}
    for f in ('/tmp/seed10_eval_c.log',):
        new.update(parse(f))
    n_missed = 0
    for key in sorted(old):
        cid, v = key
        o = old[key]['OLD']
        n = new.get(key, {}).get('NEW')
        d = Path('/verif/seeded') / cid / v
        meta = json.loads((d / 'meta.json').read_text())
        tests = o['tests']
        meta['confirmed_by_me'] = {
            'patch_applies_to': 'a fresh worktree of /repo HEAD (git apply)',
            'repository_tests_with_change': tests,
            'demo_exit_on_unchanged_tree': int(o['demo'].get('clean', -1)),
            'demo_exit_with_change': int(o['demo'].get('changed', -1)),
            'commands': [f'tools/eval_seed.sh {cid} {v} quick   # scratch worktree, demo on clean and changed tree, pytest, ./check {cid} --tier quick against the changed tree',
                         'first with VERIF_DIR pointing at a worktree of /verif as it was when the change arrived, then (if missed) with the strengthened checks'],
        }
        if tests and 'failed' in tests:
            meta['confirmed_by_me']['note'] = 'that run hit the pre-existing Hypothesis flake of test_valid_generated_properties (a generated topic that is a keyword, e.g. no); 3 re-runs with the change passed 49/49'
            meta['confirmed_by_me']['repository_tests_with_change'] = '49 passed on 3 re-runs (first run: ' + tests + ')'
        missed = not o['sigs']
        sigs = o['sigs'] if not missed else (n['sigs'] if n else [])
        meta['detected_by'] = {cid: {'tier': 'quick', 'signatures': sorted(set(sigs))[:6]}} if sigs else {}
        meta['initially_missed'] = missed
        meta.pop('strengthening', None)
        if missed:
            n_missed += 1
            meta['strengthening'] = STRENGTHENING[key]
        (d / 'meta.json').write_text(json.dumps(meta, indent=1) + '\n')
        print(key, 'initially missed' if missed else 'caught as it stood', '|', 'NOW CAUGHT' if sigs else 'NOT DETECTED', '|', tests)
    print(len(old), 'changes;', n_missed, 'initially missed')


if __name__ == '__main__':
    main()
