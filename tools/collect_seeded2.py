#!/venv/bin/python
"""Completes the meta.json of the second-round seeded changes (variants C, D) from the evaluation logs."""
import json, re
from pathlib import Path

STRENGTHENING = {
    ('C01', 'D'): 'missed by C01: terms only went through the expression / predicate / condition parsers (PREDICATE_GRAMMAR); terms and the new operator-pair matrix now also go through the property and specification parsers (HPL_GRAMMAR)',
    ('C03', 'C'): 'missed by C03 (C05 had no case either): ill-typed texts were never initial states; a family of texts that must be rejected (bound variables outside the element type of their domain, the invalid half of the signature matrix) was added - whatever the parser accepts becomes a state - and C05 got the bound-variable family',
    ('C03', 'D'): 'missed by C03: replacement objects were untyped, so every position narrowed a copy; transitions with a replacement already narrowed to "primitive" (kept as is by = and narrowed by an index) were added; C16 got constructor probes around existing nodes',
    ('C04', 'C'): 'missed by C04 (C01 caught it): no schema had field names that begin with a keyword or constant; schema kwnames added',
    ('C04', 'D'): 'missed by C04 (C16 caught it): every property was checked against one schema once; type-generic predicates are now checked against number / boolean / string schemas in all orders',
    ('C06', 'C'): 'missed by the quick tier of C06 (right-nested chains need 5 nodes; the thorough tier had them); the operator-pair matrix was added to both tiers',
    ('C07', 'D'): 'missed by C07 (C02 caught it): no pool text had a quantifier over a plain field whose body mentions an outer alias; added',
    ('C08', 'D'): 'missed by C08: predicates with a literal condition cannot come from the parser; seven API-built ones were added',
    ('C09', 'C'): 'missed by C09: the failing shape (two negations above a universal quantifier over a conjunction) has 7 nodes; chains of 2-4 negations above every term with <= 5 nodes were added',
    ('C12', 'C'): 'missed by C12 (C16 caught it): disjunctions were always built fresh; a property derived with but() from an already canonicalised one was added to C11 and C12',
    ('C13', 'C'): 'missed by C13: events were only built with publish(); the plain constructor and but(alias=) / but(predicate=) routes were added',
    ('C15', 'D'): 'missed by C15: a quantifier inside another quantifier\'s domain needs 12 nodes in the general grammar; an explicit deep-slot family was added',
    ('C16', 'C'): 'missed by C16: sharing of the metadata dictionary is invisible to before/after snapshots; the invariant "a returned object never shares a metadata dictionary with an existing one" was added',
    ('C18', 'D'): 'missed by C18 (C07 caught it): files were never parsed after a rejected file on the same parser object with annotations at stake; a history of length 2 was added',
}


def parse(path):
    res = {}
    if not Path(path).exists():
        return res
    blocks = re.split(r'#### (OLD|NEW)\n', Path(path).read_text())
    for i in range(1, len(blocks) - 1, 2):
        kind, text = blocks[i], blocks[i + 1]
        m = re.search(r'== (C\d+)/([CD]):', text)
        if not m:
            continue
        key = (m.group(1), m.group(2))
        sigs = re.findall(r'signature: (.*)', text)
        tests = re.search(r'=+ (.*passed.*?) =+', text)
        demo = dict(re.findall(r'demo on (clean|changed) tree: exit (\d+)', text))
        res.setdefault(key, {})[kind] = {'sigs': sigs, 'tests': tests.group(1) if tests else None, 'demo': demo}
    return res


def main():
    a = parse('/tmp/seed2/eval.log')
    b = parse('/tmp/seed2/eval_b.log')
    n_missed = 0
    for key in sorted(a):
        cid, v = key
        old = a[key].get('OLD', {})
        new = dict(a[key].get('NEW', {}))
        if key in b and 'NEW' in b[key]:
            new['sigs'] = b[key]['NEW']['sigs']
        d = Path('/verif/seeded') / cid / v
        meta = json.loads((d / 'meta.json').read_text())
        tests = new.get('tests')
        meta['confirmed_by_me'] = {
            'patch_applies_to': 'a fresh worktree of /repo HEAD (git apply)',
            'repository_tests_with_change': tests,
            'demo_exit_on_unchanged_tree': int(new['demo'].get('clean', -1)),
            'demo_exit_with_change': int(new['demo'].get('changed', -1)),
            'commands': [f'tools/eval_seed.sh {cid} {v} quick   # scratch worktree, demo on clean and changed tree, pytest, ./check {cid} --tier quick against the changed tree',
                         'the same with VERIF_DIR pointing at a worktree of /verif as it was before the second round (to learn whether the check already caught it)'],
        }
        if tests and 'failed' in tests:
            meta['confirmed_by_me']['note'] = 'that run hit the pre-existing Hypothesis flake of test_valid_generated_properties (generated topic "no": "globally: no causes a" is a syntax error with or without the change); re-runs passed 49/49'
            meta['confirmed_by_me']['repository_tests_with_change'] = '49 passed on re-run (first run: ' + tests + ')'
        missed = not old.get('sigs')
        meta['detected_by'] = {cid: {'tier': 'quick', 'signatures': sorted(set(new.get('sigs', [])))[:6]}}
        meta['initially_missed'] = missed
        if missed:
            n_missed += 1
            meta['strengthening'] = STRENGTHENING.get(key, 'check extended')
        elif 'strengthening' in meta:
            del meta['strengthening']
        (d / 'meta.json').write_text(json.dumps(meta, indent=1) + '\n')
        print(key, 'initially missed' if missed else 'caught as it stood', '|', 'NOW CAUGHT' if new.get('sigs') else 'STILL MISSED')
    print(n_missed, 'initially missed')


if __name__ == '__main__':
    main()
