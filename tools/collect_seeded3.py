#!/venv/bin/python
"""Completes the meta.json of the third-round seeded changes (variants E, F) from the evaluation logs
(/tmp/seed3_eval.log, /tmp/seed3_eval_b.log: before / after strengthening; /tmp/seed3_eval_c.log: re-runs
after the further strengthening of C03, C07, C14, C19)."""
import json, re
from pathlib import Path

STRENGTHENING = {
    ('C01', 'E'): 'missed by C01: no integer literal beyond 2**53 was parsed; big integers (2**53+1, int64 / uint64 limits, 30-digit numbers) were added to the literal grid',
    ('C01', 'F'): 'missed by C01: a half-open range whose bound mentions the event\'s own alias (the only way reshape() runs in the parser) was never built; own-alias references were added in every slot kind',
    ('C02', 'F'): 'missed by C02: no quantifier domain was an access path whose index expression mentions the quantified variable itself (`forall i in rows[@i]: ...`); quantifier-hygiene shapes (the variable in its own domain at every depth of an access path, nested re-binding in domains, parser and API routes) were added',
    ('C03', 'F'): 'missed by C03 (C05 caught it): no text used one computed-index element (xs[x + 1], xs[-1], xs[abs(x)]) twice at clashing types; the family was added to C03\'s must-be-rejected initial states',
    ('C04', 'E'): 'missed by C04: each parsed property was schema-checked once; histories of 2-3 checks of one property object against different schemas were added',
    ('C04', 'F'): 'missed by C04: alias-mentioning predicates were placed in absence / response / prevention / until positions only; the requirement pattern inside an after scope (`after s as A: u requires t {...}`) was added to the wrappers, for every term and the whole signature matrix',
    ('C05', 'F'): 'missed by C05: the clashing occurrences were always written the same way; pairs with one occurrence written through the event\'s own alias were added',
    ('C06', 'E'): 'caught as it stood',
    ('C06', 'F'): 'missed by C06: no field name started with an underscore, so `not _ready` (printed `not_ready`) was never printed; underscore-initial field atoms were added to the term grammar',
    ('C07', 'E'): 'missed by C07 (C02 caught it): the shadowing text was only in the predicate pool and the failure needs the property-level sanity check; a hygiene family (4 outer x 16 wrappers x 6 inner quantifiers, 7 entry-point shapes) was added',
    ('C08', 'E'): 'missed by C08: no range had a bound that simplify rewrites together with exactly one excluded end-point; family F9 (ranges with a rewritten bound x every bracket form, under in / len / sum / max / quantifiers) was added',
    ('C09', 'E'): 'missed by C09: inputs were always fresh parser results; deep copies, operators rebuilt through the API and look-alike conjuncts were added',
    ('C09', 'F'): 'missed by C09: see E (API-built look-alikes)',
    ('C10', 'E'): 'missed by C10: every input was a fresh object; the sequence refactor_reference -> replace_var_with_this / replace_this_with_var -> refactor_reference on the derived object was added',
    ('C11', 'E'): 'missed by C11: min_time has no syntax, so parser-built patterns never carry one; API-built patterns with min_time were added',
    ('C12', 'E'): 'missed by C12: the second canonical_form call after the caller emptied the first result list was not explored; added',
    ('C13', 'E'): 'missed by C13: combinators were applied to fresh objects only; the sequence negate -> derive (replace_this_with_var / replace_var_with_this / event construction) -> negate on the derived predicate was added',
    ('C13', 'F'): 'missed by C13: calls with several arguments cannot come from the parser; API-built max / min / gcd calls with the reference in a non-last argument were added to every substitution route',
    ('C14', 'E'): 'missed by C14: sums / products of two same-operator groups whose regrouped left part cancels (x + -x, (x / y) * y) were beyond the node bound; the C08 families (F2b: (a op b) op (c op d) with negated and third-field members) became inputs of C14',
    ('C14', 'F'): 'missed by C14: the reference evaluator declared every aggregate over a range of more than 2 000 points undefined, which allows any exception; len / sum / max / min of integer ranges now use closed forms, so OverflowError on len([0 to 2**64-1]) is a violation',
    ('C15', 'F'): 'missed by C15: disjunction alternatives never carried references to each other\'s aliases; added',
    ('C16', 'E'): 'missed by C16: literal crossings (the same literal object in two trees) were not in the pools; added',
    ('C17', 'E'): 'missed by C17: a reference occurred once per site; two-occurrence sites (loose then strict) were added',
    ('C17', 'F'): 'missed by C17: RangedType was only built with small bounds; big-integer bounds were added to the token grids',
    ('C18', 'E'): 'missed by C18: files with two malformed members were not generated; malformed pairs were added',
    ('C18', 'F'): 'missed by C18: parse_specification (module level) was called once per text; double parses with an edit of the first result in between were added',
    ('C19', 'E'): 'missed by C19: no integer literal beyond the range of a double (>= 2**1024); a 320-digit literal was added to the corpus',
    ('C19', 'F'): 'missed by C19: the corpus text with the words NaN / Infinity in strings and names was ill-typed and therefore silently skipped; the text was corrected and a vacuity guard (rejected corpus texts are reported in the evidence) added',
    ('C20', 'E'): 'missed by C20: casts were only exercised in a warm interpreter; cold-start pairs in fresh subprocesses were added',
    ('C20', 'F'): 'missed by C20: unions of more than three members were not explored; long union families were added',
}
NOT_DETECTED = {
    ('C08', 'F'): 'not detected, by design: folding an exact integer quotient with // agrees with the exact-rational reading of arithmetic and the original true division agrees with the IEEE-double reading; section 6 admits both, and the result of str() on a number is left unspecified, so no admissible reading tells the two apart consistently. The change is kept because it shows where the line is drawn.',
}


def parse(path):
    res = {}
    if not Path(path).exists():
        return res
    blocks = re.split(r'#### (OLD|NEW)\n', Path(path).read_text())
    for i in range(1, len(blocks) - 1, 2):
        kind, text = blocks[i], blocks[i + 1]
        m = re.search(r'== (C\d+)/([EF]):', text)
        if not m or not re.search(r'^C\d+ quick:', text, re.M) and not re.findall(r'signature: ', text):
            continue
        key = (m.group(1), m.group(2))
        sigs = re.findall(r'signature: (.*)', text)
        tests = re.search(r'=+ (.*passed.*?) =+', text)
        demo = dict(re.findall(r'demo on (clean|changed) tree: exit (\d+)', text))
        res.setdefault(key, {})[kind] = {'sigs': sigs, 'tests': tests.group(1) if tests else None, 'demo': demo}
    return res


def main():
    a = parse('/tmp/seed3_eval.log')
    for k, v in parse('/tmp/seed3_eval_b.log').items():
        a.setdefault(k, {}).update({kk: vv for kk, vv in v.items() if kk not in a.get(k, {})})
    c = parse('/tmp/seed3_eval_c.log')
    n_missed = 0
    for key in sorted(a):
        cid, v = key
        old = a[key].get('OLD', {})
        new = dict(a[key].get('NEW', {}))
        if key in c:
            new = c[key]['NEW']
        d = Path('/verif/seeded') / cid / v
        meta = json.loads((d / 'meta.json').read_text())
        tests = new.get('tests')
        meta['confirmed_by_me'] = {
            'patch_applies_to': 'a fresh worktree of /repo HEAD (git apply)',
            'repository_tests_with_change': tests,
            'demo_exit_on_unchanged_tree': int(new['demo'].get('clean', -1)),
            'demo_exit_with_change': int(new['demo'].get('changed', -1)),
            'commands': [f'tools/eval_seed.sh {cid} {v} quick   # scratch worktree, demo on clean and changed tree, pytest, ./check {cid} --tier quick against the changed tree',
                         'the same with VERIF_DIR pointing at a worktree of /verif as it was before the third round (to learn whether the check already caught it)'],
        }
        if tests and 'failed' in tests:
            meta['confirmed_by_me']['note'] = 'that run hit the pre-existing Hypothesis flake of test_valid_generated_properties (a generated topic that is a keyword, e.g. no); 4 re-runs with the change passed 49/49'
            meta['confirmed_by_me']['repository_tests_with_change'] = '49 passed on 4 re-runs (first run: ' + tests + ')'
        missed = not old.get('sigs')
        caught = bool(new.get('sigs'))
        meta['detected_by'] = {cid: {'tier': 'quick', 'signatures': sorted(set(new.get('sigs', [])))[:6]}} if caught else {}
        meta['initially_missed'] = missed
        meta.pop('strengthening', None)
        meta.pop('not_detected', None)
        if not caught:
            meta['not_detected'] = NOT_DETECTED[key]
        elif missed:
            n_missed += 1
            meta['strengthening'] = STRENGTHENING.get(key, 'check extended (see the As-built notes of the property in DESIGN.md section 5)')
        (d / 'meta.json').write_text(json.dumps(meta, indent=1) + '\n')
        print(key, 'initially missed' if missed else 'caught as it stood', '|', 'NOW CAUGHT' if caught else 'NOT DETECTED', '|', tests)
    print(len(a), 'changes;', n_missed, 'initially missed and now caught')


if __name__ == '__main__':
    main()
