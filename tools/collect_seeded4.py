#!/venv/bin/python
"""Completes the meta.json of the fourth-round seeded changes (variants G = ordinary regression, H = rare trigger)
from the evaluation logs: /tmp/seed4_eval_{a,b}.log (checks as they stood when the changes arrived, with the
repository tests), /tmp/seed4_eval_{c,d,e}.log (after strengthening)."""
import json, re
from pathlib import Path

STRENGTHENING = {
    ('C01', 'H'): 'missed by C01 (C07 caught it): no two texts differed only in blanks inside a string literal; every ordered pair of 14 such strings is now parsed back to back on one parser object (7 entry-point shapes)',
    ('C02', 'H'): 'missed by C02: the hand-written hygiene list had no quantifier nested in the DOMAIN of a middle quantifier; 392 generated shapes with an independent implementation of rule (iv) were added',
    ('C03', 'H'): 'missed by C03: the operands of parsed = / != are never pre-narrowed to overlapping, non-nested type sets; nodes built through the constructors over two references narrowed beforehand (every ordered pair of 12 type sets x 11 builders) became initial states',
    ('C04', 'H'): 'missed by C04: no nested quantifier used the outer variable only in its domain (too many nodes for the general grammar); an explicit family was added',
    ('C05', 'H'): 'missed by C05: the own alias was never used as a whole message in a slot that requires a primitive; 22 such uses x 4 event positions were added',
    ('C06', 'H'): 'missed by C06: the whole message occurred only at the top of an argument; 17 contexts (below an index that is followed by a field access, in range bounds, set members, quantifier domains ...) were added',
    ('C07', 'H'): 'missed by C07 (C01 exercised the text but does not judge non-syntax failures): no pool text referred to the own alias inside a set; an own-alias family (24 predicates x 6 positions + files) was added',
    ('C08', 'H'): 'missed by C08: towers of powers had integer exponents only; power laws with even / odd / fractional / negative literal exponents (F11) were added',
    ('C09', 'H'): 'missed by C09: results were never modified by the caller; after every call the returned list is emptied or appended to and split_and is called again',
    ('C10', 'H'): 'missed by C10: alias and variable names were unrelated single letters; renamings that make them suffixes / prefixes of one another were added',
    ('C12', 'G'): 'missed by C12: terminators were single events; disjunctive terminators (never split) were added to the family',
    ('C12', 'H'): 'missed by C12 (C11 caught it): the reference trace semantics ignored min_time and no pattern carried one; min_time is now the start of the time window and every two-alternative property is also built through the API with the window [1 s, 2 s]',
    ('C13', 'H'): 'missed by C13: the grammar had closed and open ranges only; both half-open forms were added',
    ('C14', 'H'): 'missed by C14: no aggregate was compared with the very reference it was computed from; sets with one reference among literals that cancel out, compared with that reference on either side, were added to the function matrix',
    ('C16', 'H'): 'missed by C16: no two equal nodes carried different metadata; histories of length 2 over twins (14 node kinds x every ordered pair of 26 calls) were added',
    ('C17', 'H'): 'missed by C17 (C04 caught it): every property object was checked once; every case is now also checked on an object that was first checked against two decoy schemas',
    ('C18', 'H'): 'missed by C18: only LF / blank separators, and files went through the parser object, not through the module-level parse_specification that the change touches; 16 unusual line-break / white-space characters x 9 member shapes were added, a slice of them through the module-level helpers',
    ('C19', 'H'): 'missed by C19: every text was ASCII; texts outside ASCII (well-formed Unicode, a raw non-UTF-8 byte in the argument vector) x 4 I/O configurations of the process were added',
    ('C20', 'H'): 'missed by C20: families were lists, tuples or iterators; 12 container kinds (set, frozenset, dict and its views, deque, ...) were added',
}


def parse(path):
    res = {}
    if not Path(path).exists():
        return res
    blocks = re.split(r'#### (OLD|NEW)\n', Path(path).read_text())
    for i in range(1, len(blocks) - 1, 2):
        kind, text = blocks[i], blocks[i + 1]
        m = re.search(r'== (C\d+)/([GH]):', text)
        if not m:
            continue
        key = (m.group(1), m.group(2))
        sigs = re.findall(r'signature: (.*)', text)
        tests = re.search(r'=+ (.*passed.*?) =+', text)
        demo = dict(re.findall(r'demo on (clean|changed) tree: exit (\d+)', text))
        res.setdefault(key, {})[kind] = {'sigs': sigs, 'tests': tests.group(1) if tests else None, 'demo': demo}
    return res


def main():
    old = {}
    for f in ('/tmp/seed4_eval_a.log', '/tmp/seed4_eval_b.log'):
        old.update(parse(f))
    new = {}
    for f in ('/tmp/seed4_eval_c.log', '/tmp/seed4_eval_d.log', '/tmp/seed4_eval_e.log'):
        new.update(parse(f))
    n_missed = 0
    for key in sorted(old):
        cid, v = key
        o = old[key]['OLD']
        n = new.get(key, {}).get('NEW')
        d = Path('/verif/seeded') / cid / v
        meta = json.loads((d / 'meta.json').read_text())
        tests = o['tests']
        meta['confirmed_by_me'] = {
            'patch_applies_to': 'a fresh worktree of /repo HEAD (git apply)',
            'repository_tests_with_change': tests,
            'demo_exit_on_unchanged_tree': int(o['demo'].get('clean', -1)),
            'demo_exit_with_change': int(o['demo'].get('changed', -1)),
            'commands': [f'tools/eval_seed.sh {cid} {v} quick   # scratch worktree, demo on clean and changed tree, pytest, ./check {cid} --tier quick against the changed tree',
                         'first with VERIF_DIR pointing at a worktree of /verif as it was when the change arrived, then (if missed) with the strengthened checks'],
        }
        if tests and 'failed' in tests:
            meta['confirmed_by_me']['note'] = 'that run hit the pre-existing Hypothesis flake of test_valid_generated_properties (a generated topic that is a keyword, e.g. no); 3 re-runs with the change passed 49/49'
            meta['confirmed_by_me']['repository_tests_with_change'] = '49 passed on 3 re-runs (first run: ' + tests + ')'
        missed = not o['sigs']
        sigs = o['sigs'] if not missed else (n['sigs'] if n else [])
        meta['detected_by'] = {cid: {'tier': 'quick', 'signatures': sorted(set(sigs))[:6]}} if sigs else {}
        meta['initially_missed'] = missed
        meta.pop('strengthening', None)
        if missed:
            n_missed += 1
            meta['strengthening'] = STRENGTHENING[key]
        (d / 'meta.json').write_text(json.dumps(meta, indent=1) + '\n')
        print(key, 'initially missed' if missed else 'caught as it stood', '|', 'NOW CAUGHT' if sigs else 'NOT DETECTED', '|', tests)
    print(len(old), 'changes;', n_missed, 'initially missed')


if __name__ == '__main__':
    main()
