#!/venv/bin/python
"""Completes the meta.json of the sixth-round seeded changes (variants K, L = two ordinary regressions)
from the evaluation logs: /tmp/seed6_eval_{a,b}.log (checks as they stood when the changes arrived, with the
repository tests), /tmp/seed6_eval_{c,d,e}.log (after strengthening)."""
import json, re
from pathlib import Path

STRENGTHENING = {
    ('C07', 'K'): 'missed by C07: token sequences are too short to reach `max ( xs )`, and the pools had no aggregate over an array; 29 function names x 33 argument shapes x 7 entry-point shapes were added',
    ('C12', 'L'): 'missed by C12: every event of a property had a topic of its own; alternatives (and the other event) that share their topic with the terminator or the activator under a different predicate were added',
    ('C15', 'L'): 'missed by C15: quantified variables had one letter, and the set of the characters of a one-letter name is the name; all terms with a quantifier (and all terms with <= 4 nodes) are repeated with the names item / it / tem',
    ('C16', 'K'): 'missed by C16: the query alphabet was written by hand and did not contain HplProperty.uid; every public property and no-argument method of each object\'s class is now found by introspection and read / called',
    ('C17', 'L'): 'missed by C17: the terminator position was only combined with the existence pattern; positions are now the product scope position x scope kind x pattern kind (55 own-message and 30 alias positions)',
    ('C20', 'K'): 'missed by C20 (C03 caught it; the change is in HplExpression.cast, outside src/hpl/types.py): the same law is now also checked one level up, on field / variable / index nodes carrying every type set they can carry x all 128 targets',
}


def parse(path):
    res = {}
    if not Path(path).exists():
        return res
    blocks = re.split(r'#### (OLD|NEW)\n', Path(path).read_text())
    for i in range(1, len(blocks) - 1, 2):
        kind, text = blocks[i], blocks[i + 1]
        m = re.search(r'== (C\d+)/([KL]):', text)
        if not m:
            continue
        key = (m.group(1), m.group(2))
        sigs = re.findall(r'signature: (.*)', text)
        tests = re.search(r'=+ (.*passed.*?) =+', text)
        demo = dict(re.findall(r'demo on (clean|changed) tree: exit (\d+)', text))
        res.setdefault(key, {})[kind] = {'sigs': sigs, 'tests': tests.group(1) if tests else None, 'demo': demo}
    return res


def main():
    old = {}
    for f in ('/tmp/seed6_eval_a.log', '/tmp/seed6_eval_b.log'):
        old.update(parse(f))
    new = {}
    for f in ('/tmp/seed6_eval_c.log', '/tmp/seed6_eval_d.log'):
        new.update(parse(f))
    n_missed = 0
    for key in sorted(old):
        cid, v = key
        o = old[key]['OLD']
        n = new.get(key, {}).get('NEW')
        d = Path('/verif/seeded') / cid / v
        meta = json.loads((d / 'meta.json').read_text())
        tests = o['tests']
        meta['confirmed_by_me'] = {
            'patch_applies_to': 'a fresh worktree of /repo HEAD (git apply)',
            'repository_tests_with_change': tests,
            'demo_exit_on_unchanged_tree': int(o['demo'].get('clean', -1)),
            'demo_exit_with_change': int(o['demo'].get('changed', -1)),
            'commands': [f'tools/eval_seed.sh {cid} {v} quick   # scratch worktree, demo on clean and changed tree, pytest, ./check {cid} --tier quick against the changed tree',
                         'first with VERIF_DIR pointing at a worktree of /verif as it was when the change arrived, then (if missed) with the strengthened checks'],
        }
        if tests and 'failed' in tests:
            meta['confirmed_by_me']['note'] = 'that run hit the pre-existing Hypothesis flake of test_valid_generated_properties (a generated topic that is a keyword, e.g. no); 3 re-runs with the change passed 49/49'
            meta['confirmed_by_me']['repository_tests_with_change'] = '49 passed on 3 re-runs (first run: ' + tests + ')'
        missed = not o['sigs']
        sigs = o['sigs'] if not missed else (n['sigs'] if n else [])
        meta['detected_by'] = {cid: {'tier': 'quick', 'signatures': sorted(set(sigs))[:6]}} if sigs else {}
        meta['initially_missed'] = missed
        meta.pop('strengthening', None)
        if missed:
            n_missed += 1
            meta['strengthening'] = STRENGTHENING[key]
        (d / 'meta.json').write_text(json.dumps(meta, indent=1) + '\n')
        print(key, 'initially missed' if missed else 'caught as it stood', '|', 'NOW CAUGHT' if sigs else 'NOT DETECTED', '|', tests)
    print(len(old), 'changes;', n_missed, 'initially missed')


if __name__ == '__main__':
    main()
