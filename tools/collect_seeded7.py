#!/venv/bin/python
"""Completes the meta.json of the seventh-round seeded changes (variants M, N = two ordinary regressions)
from the evaluation logs: /tmp/seed7_eval_{a,b}.log (checks as they stood when the changes arrived, with the
repository tests), /tmp/seed7_eval_{c,d,e}.log (after strengthening)."""
import json, re
from pathlib import Path

STRENGTHENING = {
    ('C09', 'M'): 'missed by C09: a quantifier over three conjuncts has 7 nodes, one more than the bound for terms with quantifiers in both tiers; quantifiers (plain and negated, both kinds, 3 domains) over and / or / implies chains of 3 and 4 members in both nestings were added',
    ('C16', 'M'): 'missed by C16: constructor probes put the existing object in the domain slot of a quantifier, never in the condition slot; boolean expressions are now wrapped in a quantifier that binds one of their free variables, and quantifiers get another domain through but()',
    ('C16', 'N'): 'missed by C16: the changed values given to but() were never None; every optional field that is set (alias, activator, terminator, trigger) is now also cleared, and the result compared with a fresh construction (or both must fail)',
    ('C20', 'M'): 'missed by C20 (C05 and C17 reach it; the change is in HplExpression._type_check, outside src/hpl/types.py): narrowing of a bound variable to the element type and of a field to its declared type were added to the expression-level unit',
    ('C20', 'N'): 'missed by C20 (again in expressions.py): HplExpression.can_be on nodes carrying every type set x all 128 targets was added',
}


def parse(path):
    res = {}
    if not Path(path).exists():
        return res
    blocks = re.split(r'#### (OLD|NEW)\n', Path(path).read_text())
    for i in range(1, len(blocks) - 1, 2):
        kind, text = blocks[i], blocks[i + 1]
        m = re.search(r'== (C\d+)/([MN]):', text)
        if not m:
            continue
        key = (m.group(1), m.group(2))
        sigs = re.findall(r'signature: (.*)', text)
        tests = re.search(r'=+ (.*passed.*?) =+', text)
        demo = dict(re.findall(r'demo on (clean|changed) tree: exit (\d+)', text))
        res.setdefault(key, {})[kind] = {'sigs': sigs, 'tests': tests.group(1) if tests else None, 'demo': demo}
    return res


def main():
    old = {}
    for f in ('/tmp/seed7_eval_a.log', '/tmp/seed7_eval_b.log'):
        old.update(parse(f))
    new = {}
    for f in ('/tmp/seed7_eval_c.log',):
        new.update(parse(f))
    n_missed = 0
    for key in sorted(old):
        cid, v = key
        o = old[key]['OLD']
        n = new.get(key, {}).get('NEW')
        d = Path('/verif/seeded') / cid / v
        meta = json.loads((d / 'meta.json').read_text())
        tests = o['tests']
        meta['confirmed_by_me'] = {
            'patch_applies_to': 'a fresh worktree of /repo HEAD (git apply)',
            'repository_tests_with_change': tests,
            'demo_exit_on_unchanged_tree': int(o['demo'].get('clean', -1)),
            'demo_exit_with_change': int(o['demo'].get('changed', -1)),
            'commands': [f'tools/eval_seed.sh {cid} {v} quick   # scratch worktree, demo on clean and changed tree, pytest, ./check {cid} --tier quick against the changed tree',
                         'first with VERIF_DIR pointing at a worktree of /verif as it was when the change arrived, then (if missed) with the strengthened checks'],
        }
        if tests and 'failed' in tests:
            meta['confirmed_by_me']['note'] = 'that run hit the pre-existing Hypothesis flake of test_valid_generated_properties (a generated topic that is a keyword, e.g. no); 3 re-runs with the change passed 49/49'
            meta['confirmed_by_me']['repository_tests_with_change'] = '49 passed on 3 re-runs (first run: ' + tests + ')'
        missed = not o['sigs']
        sigs = o['sigs'] if not missed else (n['sigs'] if n else [])
        meta['detected_by'] = {cid: {'tier': 'quick', 'signatures': sorted(set(sigs))[:6]}} if sigs else {}
        meta['initially_missed'] = missed
        meta.pop('strengthening', None)
        if missed:
            n_missed += 1
            meta['strengthening'] = STRENGTHENING[key]
        (d / 'meta.json').write_text(json.dumps(meta, indent=1) + '\n')
        print(key, 'initially missed' if missed else 'caught as it stood', '|', 'NOW CAUGHT' if sigs else 'NOT DETECTED', '|', tests)
    print(len(old), 'changes;', n_missed, 'initially missed')


if __name__ == '__main__':
    main()
