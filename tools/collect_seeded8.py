#!/venv/bin/python
"""Completes the meta.json of the eighth-round seeded changes (variants O, P = two ordinary regressions)
from the evaluation logs: /tmp/seed8_eval_{a,b}.log (checks as they stood when the changes arrived, with the
repository tests), /tmp/seed8_eval_{c,d,e}.log (after strengthening)."""
import json, re
from pathlib import Path

STRENGTHENING = {
    ('C02', 'P'): 'missed by C02: references were placed at the top level, in a quantifier body or in a quantifier domain, never inside a range / set literal, an index, a function argument or the domain of a nested quantifier; a menu with these five placements was added',
    ('C03', 'P'): 'missed by C03 (and C05): a bound variable was never used at two disjoint types with one occurrence inside a nested quantifier; 4 clashing pairs x 4 nesting shapes were added to the must-be-rejected initial states (C05: 7 uses x 5 shapes)',
    ('C07', 'O'): 'missed by C07: error messages quote the offending node, and no rejected text contained a range with a negative bound; four outer quantifiers over domains that exercise every printing branch (negative and computed bounds, half-open brackets, sets with operators, calls, constants, strings) were added to the hygiene family',
    ('C10', 'O'): 'missed by the quick tier of C10 (a universal quantifier over a negated disjunction has 6 nodes; the thorough tier had it): quantifiers (plain and negated) over plain and negated connectives of 2-3 members with alias atoms were added to both tiers',
    ('C19', 'P'): 'missed by C19: the missing-file cases used names that are not property texts; the valid corpus texts are now also passed WITHOUT -p (a file of that name does not exist: exit 1, a diagnostic, no JSON)',
    ('C20', 'O'): 'missed by C20 (the change is in HplBinaryOperator, outside src/hpl/types.py; C03 reaches it): the two operands of = / != over every ordered pair of sets of primitives must both carry the intersection',
    ('C20', 'P'): 'missed by C20 (the change is in the predicate-level same-type check; C03 / C05 reach it): three occurrences of one reference narrowed to every triple of sets of primitives must be rejected exactly when the three share no base type',
}


def parse(path):
    res = {}
    if not Path(path).exists():
        return res
    blocks = re.split(r'#### (OLD|NEW)\n', Path(path).read_text())
    for i in range(1, len(blocks) - 1, 2):
        kind, text = blocks[i], blocks[i + 1]
        m = re.search(r'== (C\d+)/([OP]):', text)
        if not m:
            continue
        key = (m.group(1), m.group(2))
        sigs = re.findall(r'signature: (.*)', text)
        tests = re.search(r'=+ (.*passed.*?) =+', text)
        demo = dict(re.findall(r'demo on (clean|changed) tree: exit (\d+)', text))
        res.setdefault(key, {})[kind] = {'sigs': sigs, 'tests': tests.group(1) if tests else None, 'demo': demo}
    return res


def main():
    old = {}
    for f in ('/tmp/seed8_eval_a.log', '/tmp/seed8_eval_b.log'):
        old.update(parse(f))
    new = {}
    for f in ('/tmp/seed8_eval_c.log', '/tmp/seed8_eval_d.log', '/tmp/seed8_eval_e.log'):
        new.update(parse(f))
    n_missed = 0
    for key in sorted(old):
        cid, v = key
        o = old[key]['OLD']
        n = new.get(key, {}).get('NEW')
        d = Path('/verif/seeded') / cid / v
        meta = json.loads((d / 'meta.json').read_text())
        tests = o['tests']
        meta['confirmed_by_me'] = {
            'patch_applies_to': 'a fresh worktree of /repo HEAD (git apply)',
            'repository_tests_with_change': tests,
            'demo_exit_on_unchanged_tree': int(o['demo'].get('clean', -1)),
            'demo_exit_with_change': int(o['demo'].get('changed', -1)),
            'commands': [f'tools/eval_seed.sh {cid} {v} quick   # scratch worktree, demo on clean and changed tree, pytest, ./check {cid} --tier quick against the changed tree',
                         'first with VERIF_DIR pointing at a worktree of /verif as it was when the change arrived, then (if missed) with the strengthened checks'],
        }
        if tests and 'failed' in tests:
            meta['confirmed_by_me']['note'] = 'that run hit the pre-existing Hypothesis flake of test_valid_generated_properties (a generated topic that is a keyword, e.g. no); 3 re-runs with the change passed 49/49'
            meta['confirmed_by_me']['repository_tests_with_change'] = '49 passed on 3 re-runs (first run: ' + tests + ')'
        missed = not o['sigs']
        sigs = o['sigs'] if not missed else (n['sigs'] if n else [])
        meta['detected_by'] = {cid: {'tier': 'quick', 'signatures': sorted(set(sigs))[:6]}} if sigs else {}
        meta['initially_missed'] = missed
        meta.pop('strengthening', None)
        if missed:
            n_missed += 1
            meta['strengthening'] = STRENGTHENING[key]
        (d / 'meta.json').write_text(json.dumps(meta, indent=1) + '\n')
        print(key, 'initially missed' if missed else 'caught as it stood', '|', 'NOW CAUGHT' if sigs else 'NOT DETECTED', '|', tests)
    print(len(old), 'changes;', n_missed, 'initially missed')


if __name__ == '__main__':
    main()
