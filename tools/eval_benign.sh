#!/bin/bash
# tools/eval_benign.sh <patch file> [check ids...]
# A behaviour-preserving change must not raise an alarm: applies the patch to a fresh scratch worktree of /repo
# (never /repo itself), runs the repository tests and then every quick check (or the given ones) against it.
P="$1"; shift
IDS="${@:-C01 C02 C03 C04 C05 C06 C07 C08 C09 C10 C11 C12 C13 C14 C15 C16 C17 C18 C19 C20}"
W=$(mktemp -d /tmp/evalbenign.XXXXXX)
git -C /repo worktree add -q --detach "$W/repo" HEAD || exit 2
cleanup() { git -C /repo worktree remove --force "$W/repo" 2>/dev/null; rm -rf "$W"; }
trap cleanup EXIT
echo "== $P"
git -C "$W/repo" apply "$P" || { echo "PATCH DOES NOT APPLY"; exit 2; }
git -C "$W/repo" diff --stat | tail -1
(cd "$W/repo" && PYTHONPATH="$W/repo/src" timeout 900 /venv/bin/python -m pytest -q -p no:cacheprovider 2>&1 | tail -1)
for c in $IDS; do
  HPL_VERIF_REPO="$W/repo" HPL_VERIF_OUT="$W/out" timeout 1500 /verif/check "$c" --tier quick 2>&1 | grep -v conda | grep -E "signature|detail|^C[0-9]+ " | cut -c1-400 | head -8
done
