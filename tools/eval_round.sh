#!/bin/bash
# tools/eval_round.sh <OLD|NEW> <log> <ID/V>...  - runs tools/eval_seed.sh for each change, 4 at a time, and
# writes one "#### OLD|NEW" block per change to <log> (the format tools/collect_seeded*.py read).
# OLD: the checks come from $VERIF_DIR (a worktree of /verif at the commit before the round).
KIND="$1"; LOG="$2"; shift 2
TMP=$(mktemp -d /tmp/evalround.XXXXXX)
printf '%s\n' "$@" | xargs -P ${JOBS:-4} -I{} bash -c 'x={}; /verif/tools/eval_seed.sh ${x%/*} ${x#*/} quick > '"$TMP"'/${x%/*}_${x#*/}.out 2>&1'
: > "$LOG"
for x in "$@"; do echo "#### $KIND" >> "$LOG"; cat "$TMP/${x%/*}_${x#*/}.out" >> "$LOG"; done
rm -rf "$TMP"
