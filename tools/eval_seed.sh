#!/bin/bash
# tools/eval_seed.sh <ID> <A|B> [tier] [extra check ids...]
# Confirms a seeded change kept under /verif/seeded/<ID>/<A|B>/: applies it to a fresh scratch worktree of /repo,
# runs the repository tests, the demo on the clean and on the changed tree, and the property's
# check (plus extra checks) against the changed tree. Never touches /repo.
ID="$1"; V="$2"; TIER="${3:-quick}"; shift 3 2>/dev/null
SRC=/verif/seeded/$ID/$V
W=$(mktemp -d /tmp/evalseed.XXXXXX)
git -C /repo worktree add -q --detach "$W/repo" HEAD || exit 2
cleanup() { git -C /repo worktree remove --force "$W/repo" 2>/dev/null; rm -rf "$W"; }
trap cleanup EXIT
echo "== $ID/$V: $(/venv/bin/python -c "import json;print(json.load(open('$SRC/meta.json'))['what'])" 2>/dev/null)"
(cd "$W/repo" && PYTHONPATH="$W/repo/src" timeout 120 /venv/bin/python "$SRC/demo.py" >/dev/null 2>&1); echo "demo on clean tree: exit $?"
git -C "$W/repo" apply "$SRC/patch.diff" || { echo "PATCH DOES NOT APPLY"; exit 2; }
git -C "$W/repo" diff --stat | tail -1
(cd "$W/repo" && PYTHONPATH="$W/repo/src" timeout 120 /venv/bin/python "$SRC/demo.py" >/dev/null 2>&1); echo "demo on changed tree: exit $?"
if [ "${SKIP_TESTS:-0}" != "1" ]; then
  (cd "$W/repo" && PYTHONPATH="$W/repo/src" timeout 900 /venv/bin/python -m pytest -q -p no:cacheprovider 2>&1 | tail -1)
fi
for c in $ID "$@"; do
  HPL_VERIF_REPO="$W/repo" HPL_VERIF_OUT="$W/out" timeout ${MUTANT_TIMEOUT:-1500} ${VERIF_DIR:-/verif}/check "$c" --tier "$TIER" 2>&1 | grep -v conda | grep -E "signature|^C[0-9]+ " | cut -c1-230 | head -${MUTANT_LINES:-5}
done
