#!/venv/bin/python
"""Regenerates MANIFEST.json from the table below (keeps it valid and current)."""
import json
from pathlib import Path

VERIF = Path(__file__).resolve().parent.parent
ALL = [f'C{i:02d}' for i in range(1, 21)]

# id -> (level text, level note, technique, design ref)
CHECKS = {
    'C16': (
        'Explicit-state exploration of API-call histories: a state is a pool of real objects (a base AST, its sub-objects, results of earlier calls); about 45 calls per object kind (printers, hash/==, traversal, reference queries, casts to 12 type sets, but() with same/changed value per field, reshape/replacements, every rewriting function, constructors around the object, schema checks); all sequences of <= 2 state-changing calls (3 on a targeted family) from every term up to 3 (thorough 4) nodes, a family aimed at rewrites that wrap existing children, annotated properties and API-built nodes over shared untyped children; every single call is followed by a deep snapshot comparison (typed lift, metadata, hash) of every pool object, and but() results are compared with fresh constructions.',
        'Snapshots read raw attrs fields; metadata is mutable by design (the harness writes one key before the first snapshot).',
        'explicit-state BFS over API-call sequences with before/after deep snapshots of an object pool',
    ),
    'C14': (
        'Bounded-exhaustive totality exploration: every accepted term up to the node bound (quick 4, thorough 5) of a grammar covering every expression node kind, the complete function x argument-shape x context matrix (27 x 27 x 16) and the property skeleton universe are fed to every public rewriting function; the result kind is checked and an exception is accepted only when a reference model predicts it (undefined constant for simplify, unsatisfiable input for split_and, coinciding incompatible references for replacements on predicates).',
        'Reference evaluator / substitution / definite-type analysis decide which exceptions are allowed. Variables used as values are not message aliases and are outside the replacements\' domain.',
        'bounded exhaustive input enumeration over all rewriting entry points with a model-derived allowed-exception table',
    ),
    'C02': (
        'Feature-deviation-bounded exhaustive exploration: every scope kind x pattern kind x every combination of up to 3-4 (quick) / 4-5 (thorough) features among disjunction widths, alias placements and reference placements (top level, quantifier body, quantifier domain) in all four event positions; each property is constructed by the parser, by the public constructors and by but() copies (at once, event by event, and stepwise through intermediate properties), and the accept / sanity-error outcome is compared with an independent scoping function; plus quantifier-hygiene and duplicate-channel sub-universes.',
        'The scoping function in hplmc/checks/c02.py implements the statement literally (parallel binding inside a disjunction; partially bound aliases count as bound).',
        'deviation-bounded exhaustive feature-combination enumeration over three construction routes against an independent scoping oracle',
    ),
    'C17': (
        'Exhaustive exploration of a bounded configuration space: for each schema of the family every valid accessor chain and every chain invalid in exactly one way, at every nesting site (incl. index expressions, range bounds, set elements, function arguments, quantifier domains and bodies), root (message, alias) and property position, is checked against the real type tokens with the expectation computed by an independent resolver and the error required to name the offender; plus the navigation helpers on every nested message, the predefined integer tokens against the two\'s-complement formula and complete constructor grids (all 128 type sets for TypeToken).',
        'Resolver and field-tree walk in hplmc/schemas.py are the reference; schemas outside the 6-member family are not explored.',
        'exhaustive schema x path x nesting-site enumeration against an independent resolver',
    ),
    'C05': (
        'Bounded-exhaustive fault injection on inputs: for every accepted well-typed term up to the node bound (quick 4, thorough 5; two schemas) every argument position x every wrong-sorted filler of a 15-term menu (one clash per text, confirmed by the reference definite-clash analysis), every reference reused at a type disjoint from the one its position requires (both conjunct orders), and non-boolean predicate roots; each text goes through the expression / predicate / condition / property parsers and must raise TypeError.',
        'Definite clashes only (parameter-type based); transitive clashes through = unification and heterogeneous sets are outside the claim.',
        'bounded exhaustive term x position x filler enumeration with a reference definite-clash analysis',
    ),
    'C04': (
        'Bounded-exhaustive type-directed exploration: for each schema of a family (primitives, variable/fixed arrays, nested messages, arrays of messages, constants; 4 schemas quick, 6 thorough) every Bool term up to 5 nodes that is well-typed under the schema (references to the message, to an aliased earlier message and to quantified variables) is wrapped into every property position that can see the alias; the parser must accept it, every reference must keep its declared type possible, and the real schema check must succeed.',
        'Sort-directed generation is the reference notion of well-typed; the schema resolver in hplmc/schemas.py is independent of hpl.types.',
        'bounded exhaustive schema x type-directed term enumeration with an independent resolver',
    ),
    'C03': (
        'Explicit-state BFS over the real API: initial states are all parser results on the term universe (quick 4, thorough 5 nodes) as expression and predicate plus a property family; transitions are simplify, split_and elements, refactor_reference halves, both replacements, negate, join with a predicate menu and canonical_form outputs; all compositions to depth 2 (the depth the property states), states deduplicated on the typed lift; an independent per-node typing invariant is evaluated on every node of every state.',
        'The invariant table (hplmc/ref/types.py: operator/function signatures, kind allowances) is hard-coded from the documented language and trusted; bound-variable use is checked with the weakest reading.',
        'explicit-state BFS (depth 2) over rewriting-call histories with a per-node typing invariant',
    ),
    'C18': (
        'Bounded-exhaustive differential exploration: all sequences of 1..3 properties from a 14-text pool (longer ones over a 4-text sub-pool) x every annotation arrangement on a bounded number of members x separators, plus every one-invalid-member variant at every index and the empty/blank/dangling files; the specification parser result is compared index by index (typed tree and metadata) with the property parser on each part, and error classes with the offending part alone.',
        'The property parser on the parts is the reference; its own correctness is C01. Files longer than the bounds and separators other than the three forms are not explored.',
        'bounded exhaustive sequence x annotation-arrangement enumeration with a per-part differential oracle',
    ),
    'C19': (
        'Exhaustive exploration of a bounded configuration space: every property skeleton and a fixed corpus covering every node kind (INF/NAN, metadata), every invalid-input class, files with valid/invalid members, missing file and directory, each under all four flag configurations, in-process through hpl.cli.main and as real processes; exit status against the library parser, stdout against a strict JSON parser and an independent mirror serialisation.',
        'The library parser called directly decides what parses; the mirror serialiser walks attrs fields.',
        'exhaustive input x flag-configuration enumeration against a strict JSON parser and a mirror serialiser',
    ),
    'C07': (
        'Bounded-exhaustive robustness exploration: all token sequences up to a length bound for 5 entry points, all single (double) token edits of a corpus, all strings up to length 2/3 over 24 awkward characters and every insertion of each into the corpus, nesting shapes to depth 50, each under a termination watchdog with the documented failure classes as oracle; plus explicit-state exploration of all call histories of length <= 3 (4) on one parser object per entry point against a fresh parser.',
        'Exception messages are compared on their first line (lark prints expected terminals in set order). Inputs longer than the bounds and arbitrary Unicode outside the 24-character alphabet are not explored.',
        'bounded exhaustive input enumeration + explicit-state call-history exploration against documented outcome classes',
    ),
    'C01': (
        'Bounded-exhaustive three-way comparison (generator tree / independent reference recursive-descent parser / lifted real AST): all terms up to the node bound in minimal and full parenthesisation through three entry points, the complete property skeleton universe with time bounds and metadata, all layouts with <= d deviations (E5), all token sequences up to a length bound over the full terminal alphabet and all single (double) token edits of a corpus for accept/reject agreement, keyword-prefixed names in every identifier position, and the .lark files against the embedded grammar.',
        'The reference parser (hplmc/ref/parse.py) is the trusted definition of the documented grammar; texts in which an identifier equals a keyword are skipped and counted; an ill-formed text rejected by an earlier type/sanity error is not counted as a violation.',
        'bounded exhaustive text/token-sequence enumeration with a differential reference parser; deviation-bounded layout exploration',
    ),
    'C06': (
        'Bounded-exhaustive exploration of print/parse: every AST the parser returns on all terms up to the node bound (quick 4, thorough 5) covering every expression node kind, all 27 functions x argument shapes, the complete property skeleton universe (widths up to 3/4) with decorations and time bounds, specifications of 1-3 properties and a grid of up to 260 000 time bounds; str -> same entry point -> ==, hash, second str, plus a run-wide injectivity map from printed text to typed tree.',
        'Equality of typed lifted trees is the reference notion of same AST; texts outside the enumerated universes are not covered.',
        'bounded exhaustive enumeration of parser outputs with round-trip, fixed-point and global injectivity oracles',
    ),
    'C13': (
        'Bounded-exhaustive exploration: every term up to the node bound (quick 5, thorough 6) of a grammar with references in every slot kind, as expression and predicate; negate, both this/var replacements (aliases unused and used), their inverse law and event alias rewriting are compared with the abstract substitution on lifted trees and by evaluation on every valuation with the alias bound to the message; join on all ordered pairs of small predicates incl. the vacuous ones.',
        'Reference evaluator and abstract substitution are the trusted oracle; aliases captured by quantifiers are outside the alphabet as the property states.',
        'bounded exhaustive term/pair x valuation enumeration against reference evaluator and abstract substitution',
    ),
    'C15': (
        'Bounded-exhaustive exploration: every term up to the node bound (quick 5, thorough 6) of a grammar that places marker references in every child slot of every expression node kind, each taken as expression (parser and API), predicate, API-built event with/without the marker alias, nested event disjunction, pattern and property, plus a multi-event property family and a specification; every query method of every such object is compared with an independent generic walk over attrs fields, and iterate() is checked to be a parents-first left-to-right traversal.',
        'Trusts attrs.fields() declaration order and the generic walk; API-only shapes such as a bare this-message argument are outside the alphabet.',
        'bounded exhaustive term enumeration against a generic attrs-field walk',
    ),
    'C11': (
        'Complete enumeration of property skeletons: every scope kind x pattern kind x disjunction width 1..3 (quick) / 1..4 (thorough) in each event position, x decorations (predicates, aliases bound on all / some alternatives and referenced later) x time bound x metadata x construction route (parser, API with both nestings); the real canonical_form output is compared with an independently computed activator-major product, outputs are rebuilt through the constructors, metadata identity is checked and canonical_form is re-applied to every output (BFS depth 2).',
        'lift() reads raw attrs fields; the expected product is computed from the documented split positions hard-coded in the harness.',
        'exhaustive skeleton enumeration + explicit-state depth-2 re-application against an independent product specification',
    ),
    'C12': (
        'Bounded model checking of trace semantics: for every property of a family with non-disjunctive activators (all scope and pattern kinds, disjunctions at split and non-split positions, predicates, alias bindings, time bounds) ALL timed traces up to a length bound (quick 3, thorough 5, subject to a stated per-property budget) are enumerated; the property and the conjunction of its real canonical_form outputs are interpreted by a reference trace semantics under both re-activation readings. The oracle is itself checked to refute the non-preserving splittings.',
        'Reference trace semantics (hplmc/ref/trace.py) is the trusted oracle; docs/semantics.md is TBD so two re-activation readings are taken and a disagreement counts only under both.',
        'exhaustive bounded trace enumeration (explicit-state) against a reference trace semantics',
    ),
    'C09': (
        'Bounded-exhaustive exploration of the real split_and(): every boolean term of a propositional + quantifier fragment up to the node bound (quick 6; thorough 6 with quantifiers, 7 without), as expression and as predicate, with the conjunction of the parts evaluated against the input on complete truth tables including empty quantifier domains, and an independent shape predicate on every part.',
        'Reference evaluator is the trusted oracle; terms outside the fragment (arithmetic inside atoms, wider domains) are not explored.',
        'bounded exhaustive term x valuation enumeration against a reference evaluator and a shape predicate',
    ),
    'C10': (
        'Bounded-exhaustive exploration of the real refactor_reference(): every boolean term with alias atoms at every depth (bodies and domains of quantifiers, under not/implies/iff) up to the node bound (quick 5, thorough 6), for a present, a second and an absent alias, as expression and as predicate; equivalence on all valuations, alias-freeness of the first half and free-variable hygiene by independent walks over the lifted trees.',
        'Reference evaluator and free-variable walk are the trusted oracle.',
        'bounded exhaustive term x valuation enumeration against a reference evaluator and free-reference walk',
    ),
    'C08': (
        'Bounded-exhaustive exploration of the real simplify(): every well-sorted term up to the node bound (quick 5, thorough 6) plus shape-directed families per visible shortcut, each evaluated before and after on every valuation of a small grid, under every iteration order the code can obtain from set() (deviation-bounded). Complete within the stated bounds; says nothing about larger terms or values outside the grid.',
        'Reference evaluator (exact rationals / python floats; set or bag reading of set literals; integer points of ranges) is the trusted oracle; a mismatch counts only if it persists under every admissible reading.',
        'bounded exhaustive term x valuation x set-order enumeration against a reference evaluator',
    ),
    'C20': (
        'Complete enumeration of the finite space: all 128 type sets, all 16 384 pairs and all 2 097 152 triples are run through the real DataType API and compared with a frozenset model; nothing is left outside the bound.',
        "Trusts CPython's enum.Flag operators for converting results back to name sets.",
        'exhaustive explicit-state enumeration of the full type lattice against a set model',
    ),
}
NOT_YET = 'check not built yet in this session (planned: bounded exhaustive exploration, see DESIGN.md section 5); not claimed until its check exists'
NA = {}


# additions of the tenth round of seeded changes (appended to the level text; details in DESIGN.md section 5)
EXTRA = {
    'C01': ' Also every numeric constant (PI, E, INF, NAN) in 15 operand slots, and 11 characters outside ASCII at 6 positions of a name in 20 kinds of name slot.',
    'C04': ' Also aliases bound by the middle / the last of three alias-binding alternatives.',
    'C05': ' Every clash is also built bottom-up through the constructors.',
    'C06': ' Predicates and properties are also printed through a twin whose parts are printed before and after the whole.',
    'C07': ' Also quantifiers over set literals of 1-3 member kinds x 14 typed uses of the variable (type errors naming combinations of types).',
    'C08': ' Also folded sums / lengths of literal ranges up to 2**64 equated with the exact integers.',
    'C10': ' Also directly nested quantifiers (4 kind pairs) with inner domains built from the outer variable.',
    'C11': ' Also alternatives whose predicate is the literal False.',
    'C12': ' Also alternatives equal to / overlapping the other event of the pattern, False-predicate alternatives, and a window property built right after its same-text twin.',
    'C13': ' Also quantifiers over literal ranges / sets that mention the message and the alias.',
    'C14': ' Also every bracketing of four operands under + and * next to the literals -1, 0, 1, 2 under four operators.',
    'C16': ' Equality / hash probed under the documented annotations id, title, description.',
    'C17': ' Helper queries also on message types built from shared token objects.',
    'C19': ' Also files just beyond 4 KiB - 128 KiB (thorough: 1 MiB).',
    'C20': ' Constructor narrowing over 27 operand slots; bound variables used below nested quantifiers.',
}

def main():
    checks = []
    for cid in ALL:
        if cid not in CHECKS:
            continue
        text, note, tech = CHECKS[cid]
        text = text + EXTRA.get(cid, '')
        checks.append({
            'property_id': cid,
            'quick_cmd': f'./check {cid} --tier quick',
            'thorough_cmd': f'./check {cid} --tier thorough',
            'evidence_file': f'evidence/{cid}.json',
            'replay_cmd_template': f'./check {cid} --replay {{path}}',
            'engine': 'hplmc',
            'level_claimed': {'category': 'model_checking', 'text': text, 'design_ref': f'DESIGN.md section 5, {cid}'},
            'level_note': note,
            'technique': tech,
        })
    m = {
        'version': 1,
        'setup_cmd': '/venv/bin/python -m compileall -q hplmc && /venv/bin/python -m hplmc.selftest',
        'hooks': {
            'guard': 'HPL_SPECS_VERIF',
            'enable': 'no source hooks: all seams (set-order stand-in hpl.rewrite.set, fresh parser objects, scratch CLI files) are installed from outside by the harness; checks export HPL_SPECS_VERIF=1 for uniformity',
            'baseline_off_cmd': 'cd /repo && /venv/bin/python -m pytest -ra -q -p no:cacheprovider --timeout=900 --continue-on-collection-errors',
            'source_commits': [],
            'add_only': True,
        },
        'engines': [
            {'name': 'hplmc', 'path': 'hplmc/', 'serves_properties': sorted(CHECKS), 'kind_free_text': 'hand-written bounded-exhaustive explorer for Python: term/property/trace universes by size, explicit-state BFS over API-call histories, deviation-bounded choice exploration, reference models as oracles; runs the real hpl code on every enumerated element'},
        ],
        'checks': checks,
        'not_applicable': [{'property_id': c, 'reason': NA.get(c, NOT_YET)} for c in ALL if c not in CHECKS],
        'notes': 'All checks: ./check <id> --tier quick|thorough; evidence written to evidence/<id>.json on every run; known findings in known_findings.json.',
    }
    (VERIF / 'MANIFEST.json').write_text(json.dumps(m, indent=1) + '\n')

if __name__ == '__main__':
    main()
