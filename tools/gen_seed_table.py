#!/venv/bin/python
"""tools/gen_seed_table.py - regenerates the table of section 8.1 of DESIGN.md from seeded/*/*/meta.json."""
import glob, json, re

ROUND = {'A': 1, 'B': 1, 'C': 2, 'D': 2, 'E': 3, 'F': 3, 'G': 4, 'H': 4, 'I': 5, 'J': 5, 'K': 6, 'L': 6, 'M': 7, 'N': 7, 'O': 8, 'P': 8, 'Q': 9, 'R': 9, 'S': 10, 'T': 10}


def short(s, n):
    s = ' '.join(s.split()).replace('|', '/')
    return s if len(s) <= n else s[:n - 3] + '...'


rows = []
stats = {'total': 0, 'missed': 0, 'undetected': 0}
for f in sorted(glob.glob('/verif/seeded/C*/*/meta.json')):
    m = json.load(open(f))
    if 'confirmed_by_me' not in m:
        continue
    cid, v = m['property'], m['variant']
    det = m.get('detected_by', {}).get(cid, {})
    sig = det.get('signatures', [''])[0] if det else ''
    stats['total'] += 1
    if m.get('not_detected'):
        status = m['not_detected']
        stats['undetected'] += 1
        sigcell = '(none)'
    else:
        sigcell = '`' + short(sig, 80) + '`'
        if m.get('initially_missed'):
            stats['missed'] += 1
            status = m.get('strengthening', 'check extended')
            status = re.sub(r'^missed by', 'would have been missed by' if ROUND[v] == 1 else 'missed by', status)
        else:
            status = 'caught by the check as it stood'
    rows.append(f"| {cid}/{v} | {short(m['what'], 210)} | {sigcell} | {short(status, 400)} |")

p = '/verif/DESIGN.md'
s = open(p).read()
head = '| change | what it does | first signature reported by the property\'s check | status when it arrived |\n|---|---|---|---|\n'
i = s.index(head) + len(head)
j = i
while s.startswith('| C', j):
    j = s.index('\n', j) + 1
s = s[:i] + '\n'.join(rows) + '\n' + s[j:]
open(p, 'w').write(s)
print(stats)
