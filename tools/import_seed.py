#!/venv/bin/python
"""tools/import_seed.py <srcdir> <ID> <src variant A|B> <dst variant>: copies a sub-agent's deliverables
into /verif/seeded/<ID>/<dst>/ (patch.diff, demo.py, preliminary meta.json)."""
import json, shutil, sys
from pathlib import Path
src, cid, sv, dv = sys.argv[1:5]
src = Path(src) / cid
d = Path('/verif/seeded') / cid / dv
d.mkdir(parents=True, exist_ok=True)
shutil.copy(src / f'mut{sv}.patch', d / 'patch.diff')
shutil.copy(src / f'demo{sv}.py', d / 'demo.py')
agent = json.loads((src / 'meta.json').read_text())[sv]
meta = {'property': cid, 'variant': dv, 'origin': 'independent sub-agent (second round) that was given only the text of the property, one-sentence descriptions of the two earlier changes for it (to avoid repeats) and a private scratch worktree of /repo; nothing from /verif',
        'files': agent.get('files'), 'what': agent.get('what'), 'needs_to_manifest': agent.get('needs')}
(d / 'meta.json').write_text(json.dumps(meta, indent=1) + '\n')
