#!/venv/bin/python
"""tools/seed_prompts.py <round-dir> - prepares one scratch directory per property under <round-dir>
(outside /repo and /verif) with a fresh git worktree of /repo HEAD and a PROMPT.txt for an independent
sub-agent.  The prompt contains only the text of the property, the worktree location, and one-sentence
descriptions of the changes earlier sub-agents produced for the same property (to avoid repeats) -
nothing from /verif."""
import json, subprocess, sys
from pathlib import Path

ROOT = Path(sys.argv[1])
MODE = sys.argv[2] if len(sys.argv) > 2 else 'mixed'   # mixed: A ordinary, B rare (round 4); ordinary: both ordinary (round 5)
props = [json.loads(l) for l in open('/verif/properties.jsonl')]

TEMPLATE = """You are working in a scratch git worktree of the Python library hpl-specs (HPL: a small specification language for message-based/ROS behavioural properties - parser, AST, type inference, logic rewriter, CLI) located at {d}/repo . Work ONLY inside {d} ; never read or write /repo or /verif or {root}/<other ids>. Do NOT use `git stash` (the stash is shared with other worktrees); to get back to the clean tree use `git checkout -- .` and to apply a saved change use `git apply`.

Run code with `/venv/bin/python` and ALWAYS with the environment variable PYTHONPATH={d}/repo/src so that `import hpl` uses this worktree (verify once with `python -c "import hpl; print(hpl.__file__)"`). The test-suite is run with:
  cd {d}/repo && PYTHONPATH={d}/repo/src /venv/bin/python -m pytest -q -p no:cacheprovider
(49 tests, about 20 seconds; one Hypothesis test, test_valid_generated_properties, is known to fail rarely on a randomly generated topic named `no` - if that happens, delete repo/.hypothesis and re-run). There is no network.

Here is a semantic property that the library is supposed to satisfy:

{title}
{statement}

TASK. Produce TWO different, realistic source changes to files under src/hpl/ (the kind of regression a maintainer could plausibly introduce: a refactoring slip, an off-by-one, a wrong entry in an operator/function table, a dropped or weakened side-condition, swapped arguments, a forgotten child slot, a cached/shared mutable object, a too-eager optimisation, a changed default, a comparison by identity instead of equality, an early return, a changed iteration order ...). Each change, applied alone, must:
 (1) still import and pass all 49 existing tests (run them to be sure);
 (2) make the library violate the property above - really and unambiguously with respect to the property text.
{ask}Make A and B differ in mechanism (different function and, where possible, different file).

Other people already produced the following changes for this property; yours must use DIFFERENT mechanisms and, where possible, different code locations and different parts of the property statement:
{earlier}

DELIVERABLES (all under {d}/):
 - mutA.patch : output of `git diff` in the worktree for change A (must apply with `git apply` from the worktree root on a clean checkout)
 - demoA.py   : a small standalone program that exits 0 on the UNCHANGED code and exits 1 (printing what went wrong) WITH change A applied; it is run as  PYTHONPATH=<worktree>/src /venv/bin/python demoA.py
 - mutB.patch, demoB.py : the same for change B
 - meta.json  : {{"A": {{"files": [...], "what": "<one sentence: the change>", "needs": "<what is needed for the violation to show>", "tests_pass": true}}, "B": {{...}}}}
Verify everything yourself: each demo exits 0 on the clean tree and 1 with its patch; the 49 tests pass with each patch applied alone. Do not edit or weaken tests. Leave the worktree clean at the end (`git checkout -- .`, no untracked files inside repo/, remove repo/.hypothesis and repo/.benchmarks if your test runs created them).
Your final answer: a short summary (5 lines) of A and B.
"""

ASK_MIXED = '''Change A: an ORDINARY regression - the most plausible slip you can find in a code path that the property depends on and that the earlier changes listed below did not touch (read the code the property is about, pick a function, helper, table entry or branch nobody has broken yet). Do not make it artificially hard to trigger; it just has to survive the test suite.
Change B: a regression that needs something SPECIFIC AND RARE to manifest - inputs or call sequences that a person writing a handful of examples, or even a tool enumerating all small inputs, would be unlikely to try: a particular combination of three or more features, a larger or deeper input than usual, a particular numeric or string value, a particular order of several API calls on shared objects, an object built through the constructors rather than the parser, or two cooperating code sites that each look fine alone.
'''
ASK_ORDINARY = '''Changes A and B: two ORDINARY regressions - the most plausible slips you can find in code paths that the property depends on and that the earlier changes listed below did not touch (read the code the property is about; pick functions, helpers, table entries or branches nobody has broken yet). Do not make them artificially hard to trigger: a user of the library would run into them with everyday inputs; they just have to survive the test suite.
'''

for p in props:
    cid = p['id']
    d = ROOT / cid
    d.mkdir(parents=True, exist_ok=True)
    if not (d / 'repo').exists():
        subprocess.check_call(['git', '-C', '/repo', 'worktree', 'add', '-q', '--detach', str(d / 'repo'), 'HEAD'])
    earlier = []
    for m in sorted(Path('/verif/seeded', cid).glob('*/meta.json')):
        earlier.append(' - ' + json.loads(m.read_text())['what'].strip())
    title = p.get('title') or p.get('name') or ''
    statement = p.get('statement') or p.get('description') or ''
    (d / 'PROMPT.txt').write_text(TEMPLATE.format(d=d, root=ROOT, title=title, statement=statement, ask=ASK_MIXED if MODE == 'mixed' else ASK_ORDINARY, earlier='\n'.join(earlier)))
    print(cid, len(earlier), 'earlier changes listed')
