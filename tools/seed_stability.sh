#!/bin/bash
# Runs every quick check under several VERIF_SEED values (into a scratch output dir) and
# compares verdicts and counters: they must be identical for every seed.
OUT=$(mktemp -d /tmp/seedstab.XXXXXX)
trap 'rm -rf "$OUT"' EXIT
IDS="${@:-C01 C02 C03 C04 C05 C06 C07 C08 C09 C10 C11 C12 C13 C14 C15 C16 C17 C18 C19 C20}"
status=0
for c in $IDS; do
  ref=""
  for seed in 0 1 7; do
    VERIF_SEED=$seed HPL_VERIF_OUT="$OUT/$seed" timeout 900 /verif/check $c --tier quick > "$OUT/log" 2>&1
    rc=$?
    sig=$(/venv/bin/python - "$OUT/$seed/evidence/$c.json" <<'PY'
import json,sys
e=json.load(open(sys.argv[1])); c=e['coverage']
print(json.dumps([c['counters'], c['outcome_histogram'], c['notes'], e['violations']], sort_keys=True))
PY
)
    if [ -z "$ref" ]; then ref="$sig"; fi
    if [ "$sig" != "$ref" ] || [ $rc -ne 0 ]; then echo "$c: seed $seed differs or exit $rc"; status=1; fi
  done
  echo "$c stable"
done
exit $status
