#!/bin/bash
# tools/try_mutant.sh <patch.diff | -e 'python edit script'> <tier> <check ids...>
# Applies a change to a scratch worktree of /repo (never to /repo itself), optionally runs the
# repository's tests there, runs the given checks against it and removes the worktree.
set -u
PATCH="$1"; TIER="$2"; shift 2
W=$(mktemp -d /tmp/mutant.XXXXXX)
git -C /repo worktree add -q --detach "$W/repo" HEAD || exit 2
cleanup() { git -C /repo worktree remove --force "$W/repo" 2>/dev/null; rm -rf "$W"; }
trap cleanup EXIT
if [ "$PATCH" = "-e" ]; then
  SCRIPT="$TIER"; TIER="$1"; shift
  (cd "$W/repo" && /venv/bin/python -c "$SCRIPT") || { echo "edit failed"; exit 2; }
else
  git -C "$W/repo" apply "$PATCH" || { echo "patch does not apply"; exit 2; }
fi
git -C "$W/repo" diff --stat | tail -1
if [ "${RUN_TESTS:-0}" = "1" ]; then
  (cd "$W/repo" && PYTHONPATH="$W/repo/src" timeout 900 /venv/bin/python -m pytest -q -p no:cacheprovider -x 2>&1 | tail -1)
fi
for c in "$@"; do
  HPL_VERIF_REPO="$W/repo" HPL_VERIF_OUT="$W/out" timeout ${MUTANT_TIMEOUT:-900} /verif/check "$c" --tier "$TIER" 2>&1 | grep -v conda | grep -E "^VIOLATION|signature|^C[0-9]+ |KNOWN" | cut -c1-220 | head -${MUTANT_LINES:-8}
done
