#!/venv/bin/python
"""tools/vacuity_audit.py <check ids...> - finds hand-written corpus texts that the library rejects.

Runs each check (quick tier) with HPLMC_LOG_REJECTED set, so hplmc.impl.try_parse logs every rejected text,
then reports the rejected texts that occur literally (as a string constant or inside one) in the check's own
source or in the shared modules - i.e. texts somebody typed, not texts an enumerator produced.  A typed text
that is rejected is either meant to be rejected (invalid corpus - fine) or a silently vacuous case (fix it).
Nothing here decides a property; it is a reading aid for the evidence."""
import glob, json, os, re, shutil, subprocess, sys, tempfile

VERIF = os.path.dirname(os.path.dirname(os.path.abspath(__file__)))
ids = sys.argv[1:] or [f'C{i:02d}' for i in range(1, 21)]
sources = {}
for f in glob.glob(os.path.join(VERIF, 'hplmc', '**', '*.py'), recursive=True):
    sources[f] = open(f).read()
for cid in ids:
    d = tempfile.mkdtemp(prefix='hplmc_vac_')
    env = dict(os.environ, HPLMC_LOG_REJECTED=d, HPL_VERIF_OUT=os.path.join(d, 'out'))
    subprocess.run([os.path.join(VERIF, 'check'), cid, '--tier', 'quick'], env=env, stdout=subprocess.DEVNULL, stderr=subprocess.DEVNULL)
    seen = {}
    for f in glob.glob(os.path.join(d, 'rej.*')):
        for line in open(f):
            kind, text, exc = json.loads(line)
            seen[text] = (kind, exc)
    own = sources[os.path.join(VERIF, 'hplmc', 'checks', cid.lower() + '.py')]
    hits = []
    for text, (kind, exc) in seen.items():
        core = text.strip()
        if core.startswith('{') and core.endswith('}'):
            core = core[1:-1].strip()
        if len(core) < 8:
            continue
        for cand in (text, core):
            esc = cand.replace('\\', '\\\\').replace("'", "\\'")
            if cand in own or esc in own:
                hits.append((kind, exc, text))
                break
    print(f'{cid}: {len(seen)} distinct rejected texts, {len(hits)} of them typed in {cid.lower()}.py')
    for kind, exc, text in sorted(hits)[:60]:
        print(f'   {kind:5s} {exc:22s} {text[:150]!r}')
    shutil.rmtree(d, ignore_errors=True)
